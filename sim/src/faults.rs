//! C19 engine: fault injection on the stored zone file while a simulated process keeps resolving.
//!
//! Invariant after every step: the process is alive - every call returned, none panicked
//! (overflow checks on), no allocation amplification. No particular offset is demanded for
//! damaged data.

use crate::cal;
use crate::json::{hex, unhex, Json};
use crate::report::{fnv, fnv_mix, Stats, Violation};
use crate::rng::{self, Rng};
use crate::tzgen;
use crate::tzref;
use crate::tzsim;
use crate::world::{guarded, Instant, PanicInfo, ReadFault, SimClock, SimFs, WriterStep};
use astrolabe::{DateTime, Offset, Time, TimeUtilities};

pub const MIN_TS: i64 = (i32::MIN as i64 - 719_162) * 86400;
pub const MAX_TS: i64 = (i32::MAX as i64 - 719_162) * 86400 + 86399;

#[derive(Clone, Debug, PartialEq)]
pub enum Op {
    Truncate(usize),
    /// `cp new /etc/localtime` caught half-way: new[..cut] then (old[cut..] if keep_old_tail).
    TornRewrite { new: Vec<u8>, cut: usize, keep_old_tail: bool },
    LostBlock { offset: usize, len: usize, fill: u8 },
    BitFlip { bit: usize },
    SetBytes { offset: usize, data: Vec<u8> },
    Replace(Vec<u8>),
    /// Several content faults landing together (e.g. a duplicated record that also carries a bad index).
    Multi(Vec<Op>),
    Fill { len: usize, byte: u8 },
    RandomFill { len: usize, seed: u64 },
    Remove,
    ReadError(ReadFault),
    /// The writer rewrites the file while the next read is in progress.
    Interleave { chunk: usize, steps: Vec<(usize, WriterStep)> },
    LookupLocal { secs: u64, nanos: u32, what: u8 },
    LookupDirect { t: i64 },
}

#[derive(Clone, Debug, PartialEq)]
pub struct Scenario {
    pub base: Option<Vec<u8>>,
    pub ops: Vec<Op>,
}

#[derive(Clone, Debug)]
pub struct Fail {
    pub invariant: &'static str,
    pub step: usize,
    pub observed: String,
    pub panic: Option<PanicInfo>,
}

#[derive(Default)]
pub struct Log {
    pub hash: u64,
    pub offsets: u64,
    pub errors_handled: u64,
    pub recovery_lookups_until_oracle: Option<u64>,
}

pub fn apply_fault(content: &mut Option<Vec<u8>>, op: &Op) -> bool {
    // returns whether the stored bytes changed
    let before = content.clone();
    match op {
        Op::Truncate(n) => {
            if let Some(c) = content {
                c.truncate(*n)
            }
        }
        Op::TornRewrite { new, cut, keep_old_tail } => {
            let old = content.clone().unwrap_or_default();
            let cut = (*cut).min(new.len());
            let mut out = new[..cut].to_vec();
            if *keep_old_tail && old.len() > cut {
                out.extend_from_slice(&old[cut..]);
            }
            *content = Some(out);
        }
        Op::LostBlock { offset, len, fill } => {
            if let Some(c) = content {
                let end = (offset + len).min(c.len());
                for b in c.iter_mut().take(end).skip(*offset) {
                    *b = *fill;
                }
            }
        }
        Op::BitFlip { bit } => {
            if let Some(c) = content {
                if bit / 8 < c.len() {
                    c[bit / 8] ^= 1 << (bit % 8);
                }
            }
        }
        Op::SetBytes { offset, data } => {
            if let Some(c) = content {
                if offset + data.len() <= c.len() {
                    c[*offset..offset + data.len()].copy_from_slice(data);
                }
            }
        }
        Op::Replace(b) => *content = Some(b.clone()),
        Op::Multi(ops) => {
            for o in ops {
                apply_fault(content, o);
            }
        }
        Op::Fill { len, byte } => *content = Some(vec![*byte; *len]),
        Op::RandomFill { len, seed } => {
            let mut r = Rng::new(*seed);
            let mut v = Vec::with_capacity(*len);
            while v.len() < *len {
                v.extend_from_slice(&r.next_u64().to_le_bytes());
            }
            v.truncate(*len);
            *content = Some(v);
        }
        Op::Remove => *content = None,
        _ => {}
    }
    *content != before
}

/// A single allocation request this large for a zone file of at most a megabyte aborts the caller
/// in any memory-limited deployment (container, ulimit): it is judged like an abort. Smaller
/// requests are not the property's business (it speaks of panics, loops and aborts only).
fn alloc_limit(file_len: usize) -> usize {
    (1 << 30) + 64 * file_len
}

/// Executes a scenario against the real code. `oracle_for_recovery`: when the last `Replace`
/// installs an intact file, count lookups until the answers equal the C18 oracle (not judged).
pub fn execute(sc: &Scenario, stats: &mut Option<&mut Stats>) -> Result<Log, Fail> {
    if stats.is_some() {
        crate::report::inflight_note(|| {
            Json::obj()
                .set("property", Json::s("C19"))
                .set("engine", Json::s("faults"))
                .set("invariant", Json::s("process-death"))
                .set("scenario", scenario_to_json(sc))
                .set("observed", Json::s("the process died while executing this fault scenario"))
        });
    }
    let fs = SimFs::install(sc.base.clone());
    let clock = SimClock::install(Instant::new(0, 0));
    let r = execute_inner(sc, &fs, &clock, stats);
    SimClock::uninstall();
    SimFs::uninstall();
    r
}

fn execute_inner(sc: &Scenario, fs: &SimFs, clock: &SimClock, stats: &mut Option<&mut Stats>) -> Result<Log, Fail> {
    let mut log = Log::default();
    log.hash = 0x1234;
    for (step, op) in sc.ops.iter().enumerate() {
        match op {
            Op::LookupLocal { secs, nanos, what } => {
                clock.set(Instant::new(*secs, *nanos));
                let flen = fs.content().map(|c| c.len()).unwrap_or(0);
                let fb = fs.served_len();
                let torn_before = fs.torn_effective();
                let (name, out) = match what {
                    0 => ("Offset::Local.resolve()", guarded(|| Offset::Local.resolve() as i64)),
                    1 => (
                        "DateTime::now_local().format(..)",
                        guarded(|| fnv(DateTime::now_local().format("yyyy-MM-dd HH:mm:ss xxxxx").as_bytes()) as i64),
                    ),
                    _ => ("Time::now_local().hour()", guarded(|| Time::now_local().hour() as i64)),
                };
                if let Some(s) = stats.as_deref_mut() {
                    if fs.torn_effective() > torn_before {
                        s.inc("c19.fault.interleaved_rewrite.effective(read_mixed_two_versions)");
                    }
                    if fs.served_len() > fb {
                        if let Err(kind) = fs.served_at(fs.served_len() - 1) {
                            s.inc(&format!("c19.fault.read_error.effective.{}", kind));
                        }
                    }
                }
                match out.result {
                    Err(p) => {
                        return Err(Fail {
                            invariant: "L0-panic",
                            step,
                            observed: format!("{} panicked: {} ({}:{})", name, p.msg, p.file, p.line),
                            panic: Some(p),
                        })
                    }
                    Ok(v) => {
                        log.hash = fnv_mix(log.hash, v as u64);
                        log.offsets += 1;
                    }
                }
                if out.max_alloc > alloc_limit(flen) {
                    return Err(Fail {
                        invariant: "A1-alloc-amplification",
                        step,
                        observed: format!("{} requested a single allocation of {} bytes for a {}-byte file", name, out.max_alloc, flen),
                        panic: None,
                    });
                }
            }
            Op::LookupDirect { t } => {
                let content = fs.content().unwrap_or_default();
                let flen = content.len();
                let tt = *t;
                let out = guarded(move || astrolabe::verif::tz_offset_at(&content, tt));
                match out.result {
                    Err(p) => {
                        return Err(Fail {
                            invariant: "L0-panic",
                            step,
                            observed: format!("lookup at {} panicked: {} ({}:{})", tt, p.msg, p.file, p.line),
                            panic: Some(p),
                        })
                    }
                    Ok(Ok(v)) => {
                        log.hash = fnv_mix(log.hash, v as u64);
                        log.offsets += 1;
                    }
                    Ok(Err(_)) => {
                        log.hash = fnv_mix(log.hash, 0xEEEE);
                        log.errors_handled += 1;
                    }
                }
                if out.max_alloc > alloc_limit(flen) {
                    return Err(Fail {
                        invariant: "A1-alloc-amplification",
                        step,
                        observed: format!("parsing requested a single allocation of {} bytes for a {}-byte file", out.max_alloc, flen),
                        panic: None,
                    });
                }
            }
            Op::ReadError(f) => {
                fs.fail_next_read(f.clone());
                if let Some(s) = stats.as_deref_mut() {
                    s.inc(&format!("c19.fault.read_error.injected.{}", f.name()));
                }
            }
            Op::Interleave { chunk, steps } => {
                fs.set_chunk(*chunk);
                fs.set_interleave(steps.clone());
                if let Some(s) = stats.as_deref_mut() {
                    s.inc("c19.fault.interleaved_rewrite.injected");
                }
            }
            fault => {
                let mut content = fs.content();
                let changed = apply_fault(&mut content, fault);
                fs.set_content(content);
                if let Some(s) = stats.as_deref_mut() {
                    let name = fault_name(fault);
                    s.inc(&format!("c19.fault.{}.injected", name));
                    if changed {
                        s.inc(&format!("c19.fault.{}.effective(bytes_changed)", name));
                    }
                }
            }
        }
    }
    Ok(log)
}

pub fn fault_name(op: &Op) -> &'static str {
    match op {
        Op::Truncate(_) => "truncate",
        Op::TornRewrite { .. } => "torn_rewrite",
        Op::LostBlock { .. } => "lost_block",
        Op::BitFlip { .. } => "bit_flip",
        Op::SetBytes { .. } => "set_bytes(count/index/version)",
        Op::Replace(_) => "replace_content",
        Op::Multi(_) => "compound_fault",
        Op::Fill { .. } => "degenerate_fill",
        Op::RandomFill { .. } => "degenerate_random",
        Op::Remove => "remove_file",
        Op::ReadError(_) => "read_error",
        Op::Interleave { .. } => "interleaved_rewrite",
        Op::LookupLocal { .. } => "lookup_local",
        Op::LookupDirect { .. } => "lookup_direct",
    }
}

// ------------------------------------------------------------------------------------------------
// JSON
// ------------------------------------------------------------------------------------------------

fn step_to_json(s: &WriterStep) -> Json {
    match s {
        WriterStep::PwriteAt { offset, data } => Json::obj().set("w", Json::s("pwrite")).set("offset", Json::u(*offset)).set("data", Json::s(&hex(data))),
        WriterStep::Truncate { len } => Json::obj().set("w", Json::s("truncate")).set("len", Json::u(*len)),
        WriterStep::RenameReplace { data } => Json::obj().set("w", Json::s("rename")).set("data", Json::s(&hex(data))),
    }
}

fn step_from_json(j: &Json) -> Result<WriterStep, String> {
    let w = j.get("w").and_then(|v| v.str()).ok_or("w")?;
    let data = || j.get("data").and_then(|v| v.str()).ok_or("data".to_string()).and_then(unhex);
    Ok(match w {
        "pwrite" => WriterStep::PwriteAt { offset: j.get("offset").and_then(|v| v.int()).ok_or("offset")? as usize, data: data()? },
        "truncate" => WriterStep::Truncate { len: j.get("len").and_then(|v| v.int()).ok_or("len")? as usize },
        "rename" => WriterStep::RenameReplace { data: data()? },
        _ => return Err("writer step".into()),
    })
}

pub fn op_to_json(op: &Op) -> Json {
    let o = Json::obj().set("op", Json::s(fault_name(op)));
    match op {
        Op::Truncate(n) => o.set("len", Json::u(*n)),
        Op::TornRewrite { new, cut, keep_old_tail } => o.set("new", Json::s(&hex(new))).set("cut", Json::u(*cut)).set("keep_old_tail", Json::Bool(*keep_old_tail)),
        Op::LostBlock { offset, len, fill } => o.set("offset", Json::u(*offset)).set("len", Json::u(*len)).set("fill", Json::u(*fill as usize)),
        Op::BitFlip { bit } => o.set("bit", Json::u(*bit)),
        Op::SetBytes { offset, data } => o.set("offset", Json::u(*offset)).set("data", Json::s(&hex(data))),
        Op::Replace(b) => o.set("data", Json::s(&hex(b))),
        Op::Multi(ops) => o.set("ops", Json::Arr(ops.iter().map(op_to_json).collect())),
        Op::Fill { len, byte } => o.set("len", Json::u(*len)).set("byte", Json::u(*byte as usize)),
        Op::RandomFill { len, seed } => o.set("len", Json::u(*len)).set("seed", Json::Int(*seed as i128)),
        Op::Remove => o,
        Op::ReadError(f) => o.set("kind", Json::s(f.name())),
        Op::Interleave { chunk, steps } => o.set("chunk", Json::u(*chunk)).set(
            "steps",
            Json::Arr(steps.iter().map(|(k, s)| Json::obj().set("after_chunk", Json::u(*k)).set("step", step_to_json(s))).collect()),
        ),
        Op::LookupLocal { secs, nanos, what } => o.set("secs", Json::Int(*secs as i128)).set("nanos", Json::Int(*nanos as i128)).set("what", Json::u(*what as usize)),
        Op::LookupDirect { t } => o.set("t", Json::Int(*t as i128)),
    }
}

pub fn op_from_json(j: &Json) -> Result<Op, String> {
    let name = j.get("op").and_then(|v| v.str()).ok_or("op")?;
    let int = |k: &str| j.get(k).and_then(|v| v.int()).ok_or(format!("missing {}", k));
    let bytes = |k: &str| j.get(k).and_then(|v| v.str()).ok_or(format!("missing {}", k)).and_then(unhex);
    Ok(match name {
        "truncate" => Op::Truncate(int("len")? as usize),
        "torn_rewrite" => Op::TornRewrite { new: bytes("new")?, cut: int("cut")? as usize, keep_old_tail: j.get("keep_old_tail").and_then(|v| v.bool()).unwrap_or(false) },
        "lost_block" => Op::LostBlock { offset: int("offset")? as usize, len: int("len")? as usize, fill: int("fill")? as u8 },
        "bit_flip" => Op::BitFlip { bit: int("bit")? as usize },
        "set_bytes(count/index/version)" => Op::SetBytes { offset: int("offset")? as usize, data: bytes("data")? },
        "replace_content" => Op::Replace(bytes("data")?),
        "compound_fault" => {
            let mut v = Vec::new();
            for o in j.get("ops").and_then(|v| v.arr()).ok_or("ops")? {
                v.push(op_from_json(o)?);
            }
            Op::Multi(v)
        }
        "degenerate_fill" => Op::Fill { len: int("len")? as usize, byte: int("byte")? as u8 },
        "degenerate_random" => Op::RandomFill { len: int("len")? as usize, seed: int("seed")? as u64 },
        "remove_file" => Op::Remove,
        "read_error" => Op::ReadError(ReadFault::from_name(j.get("kind").and_then(|v| v.str()).unwrap_or("")).ok_or("kind")?),
        "interleaved_rewrite" => {
            let mut steps = Vec::new();
            for s in j.get("steps").and_then(|v| v.arr()).ok_or("steps")? {
                steps.push((s.get("after_chunk").and_then(|v| v.int()).ok_or("after_chunk")? as usize, step_from_json(s.get("step").ok_or("step")?)?));
            }
            Op::Interleave { chunk: int("chunk")? as usize, steps }
        }
        "lookup_local" => Op::LookupLocal { secs: int("secs")? as u64, nanos: int("nanos")? as u32, what: int("what")? as u8 },
        "lookup_direct" => Op::LookupDirect { t: int("t")? as i64 },
        _ => return Err(format!("unknown op {}", name)),
    })
}

pub fn scenario_to_json(sc: &Scenario) -> Json {
    Json::obj()
        .set("base_hex", match &sc.base {
            Some(b) => Json::s(&hex(b)),
            None => Json::Null,
        })
        .set("ops", Json::Arr(sc.ops.iter().map(op_to_json).collect()))
}

pub fn scenario_from_json(j: &Json) -> Result<Scenario, String> {
    let base = match j.get("base_hex") {
        Some(Json::Str(s)) => Some(unhex(s)?),
        _ => None,
    };
    let mut ops = Vec::new();
    for o in j.get("ops").and_then(|v| v.arr()).ok_or("ops")? {
        ops.push(op_from_json(o)?);
    }
    Ok(Scenario { base, ops })
}

// ------------------------------------------------------------------------------------------------
// Lookup battery
// ------------------------------------------------------------------------------------------------

pub fn battery_instants() -> Vec<i64> {
    let mut v = vec![
        0,
        1,
        -1,
        (1 << 31) - 1,
        1 << 31,
        (1 << 31) + 1,
        -(1 << 31),
        -(1 << 31) - 1,
        1 << 32,
        tzsim::MAX_CLOCK,
        100_000_000_000,
        -100_000_000_000,
        MIN_TS,
        MIN_TS + 1,
        MIN_TS + 200 * 86400,
        MAX_TS,
        MAX_TS - 1,
        MAX_TS - 200 * 86400,
    ];
    // a walk through a leap and a common year, where rule dates are evaluated
    for (y, m, d) in [(2024, 1, 1), (2024, 2, 29), (2024, 3, 1), (2024, 7, 15), (2024, 12, 31), (2023, 3, 26), (2023, 10, 29), (2023, 12, 31), (1969, 12, 31), (1901, 12, 13), (2038, 1, 19), (2100, 3, 1)] {
        v.push(cal::unix_from_civil(y, m, d, 12, 0, 0));
    }
    // one instant in each year of a 28-year cycle (all 14 combinations of leap/common year and
    // weekday of 1 January), at a date that walks through the months
    for k in 0..28i64 {
        let m = (k % 12 + 1) as u32;
        v.push(cal::unix_from_civil(2020 + k, m, cal::days_in_month(2020 + k, m), 3, 30, 0));
    }
    v
}

struct Host {
    fs: SimFs,
    clock: SimClock,
}

/// Probes one stored content: all instants through the direct entry (batch, falling back to single
/// calls to find the culprit), a few through the local path.
fn probe(host: &Host, content: Option<&[u8]>, instants: &[i64], rng_salt: u64, stats: &mut Stats) -> Result<(), (Fail, Op)> {
    let flen = content.map(|c| c.len()).unwrap_or(0);
    crate::report::inflight_note(|| {
        let sc = Scenario { base: content.map(|c| c.to_vec()), ops: instants.iter().map(|t| Op::LookupDirect { t: *t }).collect() };
        Json::obj()
            .set("property", Json::s("C19"))
            .set("engine", Json::s("faults"))
            .set("invariant", Json::s("process-death"))
            .set("scenario", scenario_to_json(&sc))
            .set("observed", Json::s("the process died while looking up in this stored content"))
    });
    if let Some(c) = content {
        let b = c.to_vec();
        let ts = instants.to_vec();
        let out = guarded(move || astrolabe::verif::tz_offsets_at(&b, &ts));
        if out.max_alloc > alloc_limit(flen) {
            return Err((
                Fail { invariant: "A1-alloc-amplification", step: 0, observed: format!("parsing requested a single allocation of {} bytes for a {}-byte file", out.max_alloc, flen), panic: None },
                Op::LookupDirect { t: instants[0] },
            ));
        }
        match out.result {
            Ok(Ok(v)) => {
                stats.add("c19.outcome.offset", v.len() as u64);
                stats.inc("c19.reach.damaged_file_still_parses");
            }
            Ok(Err(_)) => {
                stats.inc("c19.outcome.error_handled(parse_rejected)");
            }
            Err(_) => {
                for t in instants {
                    let b = c.to_vec();
                    let tt = *t;
                    let o = guarded(move || astrolabe::verif::tz_offset_at(&b, tt));
                    if let Err(p) = o.result {
                        return Err((
                            Fail { invariant: "L0-panic", step: 0, observed: format!("lookup at {} panicked: {} ({}:{})", tt, p.msg, p.file, p.line), panic: Some(p) },
                            Op::LookupDirect { t: tt },
                        ));
                    }
                }
                return Err((Fail { invariant: "L0-panic", step: 0, observed: "batch lookup panicked (single lookups do not)".into(), panic: None }, Op::LookupDirect { t: instants[0] }));
            }
        }
    }
    // local path: resolve() at two instants, one formatted now_local, one Time::now_local
    host.fs.set_content(content.map(|c| c.to_vec()));
    let picks = [
        (instants[(rng_salt % instants.len() as u64) as usize], 0u8),
        (1_711_418_400 + (rng_salt % 30_000_000) as i64, 0),
        (1_700_000_000 + (rng_salt % 40_000_000) as i64, 1),
        (4_102_444_800 + (rng_salt % 40_000_000) as i64, 2),
        // anywhere between 1970 and 2500
        ((rng_salt.wrapping_mul(0x9E37_79B9_7F4A_7C15) % tzsim::MAX_CLOCK as u64) as i64, 0),
    ];
    for (t, what) in picks {
        if t < 0 || t > tzsim::MAX_CLOCK {
            continue;
        }
        let nanos = (rng_salt % 1_000_000_000) as u32;
        host.clock.set(Instant::new(t as u64, nanos));
        let (name, out) = match what {
            0 => ("Offset::Local.resolve()", guarded(|| Offset::Local.resolve() as i64)),
            1 => ("DateTime::now_local().format(..)", guarded(|| DateTime::now_local().format("yyyy-MM-dd HH:mm:ss xxxxx").len() as i64)),
            _ => ("Time::now_local().hour()", guarded(|| Time::now_local().hour() as i64)),
        };
        stats.inc("c19.lookups.local_path");
        if let Err(p) = out.result {
            return Err((
                Fail { invariant: "L0-panic", step: 0, observed: format!("{} panicked: {} ({}:{})", name, p.msg, p.file, p.line), panic: Some(p) },
                Op::LookupLocal { secs: t as u64, nanos, what },
            ));
        }
        if out.max_alloc > alloc_limit(flen) {
            return Err((
                Fail { invariant: "A1-alloc-amplification", step: 0, observed: format!("{} requested a single allocation of {} bytes for a {}-byte file", name, out.max_alloc, flen), panic: None },
                Op::LookupLocal { secs: t as u64, nanos, what },
            ));
        }
    }
    Ok(())
}

// ------------------------------------------------------------------------------------------------
// Fault enumeration over one base file
// ------------------------------------------------------------------------------------------------

/// Offsets of the interesting fields of a TZif file (both headers), if it is well formed.
pub struct Layout {
    pub headers: Vec<usize>,      // offset of each "TZif" header
    pub type_index_arrays: Vec<(usize, usize)>, // (offset, len) of transition type arrays
    pub time_arrays: Vec<(usize, usize, usize)>, // (offset, count, width) of transition time arrays
    pub typecnt: Vec<usize>,
    pub footer_start: usize,
}

pub fn layout(bytes: &[u8]) -> Option<Layout> {
    let rd = |o: usize| -> Option<usize> { bytes.get(o..o + 4).map(|s| u32::from_be_bytes([s[0], s[1], s[2], s[3]]) as usize) };
    if bytes.len() < 44 || &bytes[0..4] != b"TZif" {
        return None;
    }
    let mut headers = vec![0usize];
    let mut arrays = Vec::new();
    let mut typecnts = Vec::new();
    let v = bytes[4];
    let (isut, isstd, leap, time, typ, chr) = (rd(20)?, rd(24)?, rd(28)?, rd(32)?, rd(36)?, rd(40)?);
    arrays.push((44 + time * 4, time));
    let mut time_arrays = vec![(44usize, time, 4usize)];
    typecnts.push(typ);
    let end1 = 44 + time * 5 + typ * 6 + chr + leap * 8 + isstd + isut;
    if v == 0 {
        return Some(Layout { headers, type_index_arrays: arrays, time_arrays, typecnt: typecnts, footer_start: bytes.len() });
    }
    if bytes.len() < end1 + 44 {
        return None;
    }
    headers.push(end1);
    let (isut, isstd, leap, time, typ, chr) = (rd(end1 + 20)?, rd(end1 + 24)?, rd(end1 + 28)?, rd(end1 + 32)?, rd(end1 + 36)?, rd(end1 + 40)?);
    arrays.push((end1 + 44 + time * 8, time));
    time_arrays.push((end1 + 44, time, 8));
    typecnts.push(typ);
    let end2 = end1 + 44 + time * 9 + typ * 6 + chr + leap * 12 + isstd + isut;
    if end2 > bytes.len() {
        return None;
    }
    Some(Layout { headers, type_index_arrays: arrays, time_arrays, typecnt: typecnts, footer_start: end2 })
}

fn report(seed: u64, run: u64, family: &str, base: &[u8], fault: Option<Op>, lookup: Op, f: Fail) -> Violation {
    let mut ops = Vec::new();
    if let Some(fl) = fault {
        ops.push(fl);
    }
    ops.push(lookup);
    let sc = Scenario { base: Some(base.to_vec()), ops };
    to_violation(seed, run, family, &sc, &f)
}

pub fn to_violation(seed: u64, run: u64, family: &str, sc: &Scenario, f: &Fail) -> Violation {
    let (msc, mf) = minimise(sc, f);
    let key = match &mf.panic {
        Some(p) => format!("{}:{}", mf.invariant, p.key()),
        None => format!("{}:{}", mf.invariant, family),
    };
    Violation {
        property: "C19",
        invariant: mf.invariant.to_string(),
        key,
        what: format!("[{}] {} ; faults: {}", family, mf.observed, msc.ops.iter().filter(|o| !matches!(o, Op::LookupDirect { .. } | Op::LookupLocal { .. })).map(|o| fault_name(o)).collect::<Vec<_>>().join(",")),
        run,
        replay: Json::obj()
            .set("property", Json::s("C19"))
            .set("engine", Json::s("faults"))
            .set("invariant", Json::s(mf.invariant))
            .set("seed", Json::Int(seed as i128))
            .set("run", Json::Int(run as i128))
            .set("family", Json::s(family))
            .set("scenario", scenario_to_json(&msc))
            .set("failing_step", Json::u(mf.step))
            .set("observed", Json::s(&mf.observed))
            .set(
                "panic",
                match &mf.panic {
                    Some(p) => Json::obj().set("msg", Json::s(&p.msg)).set("at", Json::s(&format!("{}:{}", p.file, p.line))),
                    None => Json::Null,
                },
            ),
        replay_full: Some(
            Json::obj()
                .set("property", Json::s("C19"))
                .set("engine", Json::s("faults"))
                .set("invariant", Json::s(f.invariant))
                .set("seed", Json::Int(seed as i128))
                .set("run", Json::Int(run as i128))
                .set("family", Json::s(family))
                .set("scenario", scenario_to_json(sc))
                .set("failing_step", Json::u(f.step))
                .set("observed", Json::s(&f.observed)),
        ),
    }
}

fn same(sc: &Scenario, f: &Fail) -> Option<Fail> {
    match execute(sc, &mut None) {
        Err(g) if g.invariant == f.invariant && g.panic.as_ref().map(|p| p.key()) == f.panic.as_ref().map(|p| p.key()) => Some(g),
        _ => None,
    }
}

pub fn minimise(sc: &Scenario, f: &Fail) -> (Scenario, Fail) {
    let mut best = sc.clone();
    let mut bf = match same(&best, f) {
        Some(g) => g,
        None => return (best, f.clone()),
    };
    // cut after the failing step, then drop ops one at a time (sequences are short)
    if bf.step + 1 < best.ops.len() {
        let mut c = best.clone();
        c.ops.truncate(bf.step + 1);
        if let Some(g) = same(&c, f) {
            best = c;
            bf = g;
        }
    }
    let mut i = 0;
    while best.ops.len() > 1 && i < best.ops.len() - 1 {
        let mut c = best.clone();
        c.ops.remove(i);
        if let Some(g) = same(&c, f) {
            best = c;
            bf = g;
        } else {
            i += 1;
        }
    }
    // fold the fault ops into the base when only content faults remain: base' = result, ops = [lookup]
    let only_content = best.ops[..best.ops.len() - 1].iter().all(|o| !matches!(o, Op::ReadError(_) | Op::Interleave { .. } | Op::LookupDirect { .. } | Op::LookupLocal { .. }));
    if only_content && best.ops.len() > 2 {
        let mut content = best.base.clone();
        for o in &best.ops[..best.ops.len() - 1] {
            apply_fault(&mut content, o);
        }
        let c = Scenario { base: content, ops: vec![best.ops[best.ops.len() - 1].clone()] };
        if let Some(g) = same(&c, f) {
            best = c;
            bf = g;
        }
    }
    (best, bf)
}

fn be32(v: u32) -> Vec<u8> {
    v.to_be_bytes().to_vec()
}

/// Enumerates the structural fault space of one base file. Returns the number of scenarios.
fn enumerate_base(seed: u64, run: u64, base: &[u8], exhaustive_bits: bool, rng: &mut Rng, stats: &mut Stats) -> u64 {
    let fs = SimFs::install(None);
    let clock = SimClock::install(Instant::new(0, 0));
    let host = Host { fs, clock };
    let mut n = 0u64;
    let mut instants = battery_instants();
    if let Ok(z) = tzref::parse_tzif(base) {
        for (t, _) in z.trans.iter().take(4).chain(z.trans.iter().rev().take(4)) {
            instants.push(*t);
            instants.push(*t + 1);
        }
    }
    let lay = layout(base);
    // instants at which the intact file is resolved again after each repaired fault: inside the
    // intervals of its first and last transitions and in between
    let mut restore_instants: Vec<i64> = instants.iter().cloned().filter(|t| *t >= 0 && *t <= tzsim::MAX_CLOCK).collect();
    restore_instants.sort_unstable();
    restore_instants.dedup();
    if restore_instants.len() > 4 {
        let l = restore_instants.len();
        restore_instants = vec![restore_instants[0], restore_instants[l / 3], restore_instants[2 * l / 3], restore_instants[l - 1]];
    }
    let mut found: Vec<Violation> = Vec::new();
    let mut keys_seen = std::collections::BTreeSet::new();
    let mut try_fault = |fault: Op, family: &str, stats: &mut Stats, n: &mut u64| {
        let mut content = Some(base.to_vec());
        let changed = apply_fault(&mut content, &fault);
        let name = fault_name(&fault);
        stats.inc(&format!("c19.fault.{}.injected", name));
        if changed {
            stats.inc(&format!("c19.fault.{}.effective(bytes_changed)", name));
        }
        *n += 1;
        stats.add("c19.lookups.direct", instants.len() as u64);
        if let Err((f, lookup)) = probe(&host, content.as_deref(), &instants, *n ^ run, stats) {
            let k = format!("{}:{:?}", f.invariant, f.panic.as_ref().map(|p| p.key()));
            stats.inc("c19.outcome.violation_scenarios");
            if keys_seen.insert(k) {
                found.push(report(seed, run, family, base, Some(fault), lookup, f));
            }
            return;
        }
        // the damage is repaired: the intact file is back and the process keeps resolving
        // (A -> damaged B -> A again: nothing of B may survive in what the reader kept)
        host.fs.set_content(Some(base.to_vec()));
        for t in restore_instants.iter() {
            host.clock.set(Instant::new(*t as u64, 0));
            let out = guarded(|| Offset::Local.resolve());
            stats.inc("c19.lookups.local_path_after_repair");
            if let Err(p) = out.result {
                let f = Fail { invariant: "L0-panic", step: 0, observed: format!("Offset::Local.resolve() on the repaired (intact) file panicked: {} ({}:{})", p.msg, p.file, p.line), panic: Some(p) };
                let k = format!("{}:{:?}", f.invariant, f.panic.as_ref().map(|p| p.key()));
                stats.inc("c19.outcome.violation_scenarios");
                if keys_seen.insert(k) {
                    let look = |tt: i64| Op::LookupLocal { secs: tt as u64, nanos: 0, what: 0 };
                    let mut ops: Vec<Op> = restore_instants.iter().map(|x| look(*x)).collect();
                    ops.push(fault.clone());
                    ops.extend(restore_instants.iter().map(|x| look(*x)));
                    ops.push(Op::Replace(base.to_vec()));
                    ops.extend(restore_instants.iter().map(|x| look(*x)));
                    let sc = Scenario { base: Some(base.to_vec()), ops };
                    found.push(to_violation(seed, run, family, &sc, &f));
                }
                return;
            }
        }
    };
    // F1 truncation: every prefix (files <= 4 KiB) or field boundaries +-1 and a sample
    if base.len() <= 4096 {
        for len in 0..base.len() {
            try_fault(Op::Truncate(len), "F1-truncate", stats, &mut n);
        }
        stats.inc("c19.exhaustive.all_prefixes_of_file");
    } else {
        let mut cuts: Vec<usize> = Vec::new();
        if let Some(l) = &lay {
            for h in &l.headers {
                for d in [0usize, 4, 5, 20, 44] {
                    cuts.push(h + d);
                }
            }
            for (o, len) in &l.type_index_arrays {
                cuts.push(*o);
                cuts.push(o + len);
            }
            cuts.push(l.footer_start);
            cuts.push(l.footer_start + 1);
        }
        let mut all: Vec<usize> = Vec::new();
        for c in cuts {
            for d in [-1i64, 0, 1] {
                let x = c as i64 + d;
                if x >= 0 && (x as usize) < base.len() {
                    all.push(x as usize);
                }
            }
        }
        for _ in 0..200 {
            all.push(rng.usize(base.len()));
        }
        for len in all {
            try_fault(Op::Truncate(len), "F1-truncate", stats, &mut n);
        }
    }
    // F5 header counts, version byte, magic
    if let Some(l) = &lay {
        for h in &l.headers {
            for field in 0..6usize {
                let off = h + 20 + 4 * field;
                let exact = u32::from_be_bytes(base[off..off + 4].try_into().unwrap());
                for v in [0u32, 1, exact.wrapping_sub(1), exact.wrapping_add(1), 1 << 24, (1u32 << 31) - 1, u32::MAX, 0x0100_0000 | exact, exact << 8] {
                    if v != exact {
                        try_fault(Op::SetBytes { offset: off, data: be32(v) }, "F5-count", stats, &mut n);
                    }
                }
            }
            for v in [0u8, b'1', b'2', b'3', b'4', 0xFF] {
                try_fault(Op::SetBytes { offset: h + 4, data: vec![v] }, "F5-version", stats, &mut n);
            }
            try_fault(Op::SetBytes { offset: *h, data: b"TZiF".to_vec() }, "F5-magic", stats, &mut n);
        }
        stats.inc("c19.exhaustive.header_counts_x_values");
        // F6 type indices
        for (k, (o, len)) in l.type_index_arrays.iter().enumerate() {
            let cnt = l.typecnt[k];
            let positions: Vec<usize> = if *len <= 64 { (0..*len).collect() } else { (0..48).map(|_| rng.usize(*len)).chain([0, len - 1]).collect() };
            for p in positions {
                for v in [cnt.min(255) as u8, 255u8, (cnt.saturating_sub(1)).min(255) as u8 ^ 0x80] {
                    try_fault(Op::SetBytes { offset: o + p, data: vec![v] }, "F6-type-index", stats, &mut n);
                }
            }
            // typecnt := 0 (header field 4)
            try_fault(Op::SetBytes { offset: l.headers[k] + 36, data: be32(0) }, "F6-typecnt-zero", stats, &mut n);
        }
        // F11 transition-table order: duplicated, swapped, reversed, constant and extreme times
        // (a lost or repeated write inside the sorted table)
        for (o, cnt, w) in l.time_arrays.iter().cloned() {
            if cnt < 2 {
                continue;
            }
            let rd = |k: usize| base[o + k * w..o + (k + 1) * w].to_vec();
            let picks: Vec<usize> = if cnt <= 12 { (0..cnt).collect() } else { (0..8).map(|_| rng.usize(cnt)).chain([0, 1, cnt - 2, cnt - 1]).collect() };
            for &k in &picks {
                // time[k] := its neighbour (duplicate record), := the first, := the last
                for src in [k.saturating_sub(1), (k + 1).min(cnt - 1), 0, cnt - 1] {
                    if src != k {
                        try_fault(Op::SetBytes { offset: o + k * w, data: rd(src) }, "F11-table-order", stats, &mut n);
                    }
                }
                // extreme values
                for v in [vec![0x80u8; 1], vec![0x7F; 1]] {
                    let mut d = vec![if v[0] == 0x80 { 0u8 } else { 0xFF }; w];
                    d[0] = v[0];
                    try_fault(Op::SetBytes { offset: o + k * w, data: d }, "F11-table-order", stats, &mut n);
                }
            }
            // a duplicated record that also carries a dangling type index (two faults together)
            if let Some((io, ilen)) = l.type_index_arrays.iter().find(|(io, _)| *io == o + cnt * w).cloned() {
                let tc = *l.typecnt.iter().max().unwrap_or(&1);
                for &k in picks.iter().filter(|k| **k >= 1 && **k < ilen) {
                    for bad in [tc.min(255) as u8, 255u8] {
                        try_fault(
                            Op::Multi(vec![Op::SetBytes { offset: o + k * w, data: rd(k - 1) }, Op::SetBytes { offset: io + k, data: vec![bad] }]),
                            "F11-duplicate-record-with-bad-index",
                            stats,
                            &mut n,
                        );
                    }
                }
            }
            // the whole table reversed; the whole table set to one value; last := first + small
            let mut rev = Vec::with_capacity(cnt * w);
            for k in (0..cnt).rev() {
                rev.extend_from_slice(&rd(k));
            }
            try_fault(Op::SetBytes { offset: o, data: rev }, "F11-table-order", stats, &mut n);
            let mut same = Vec::with_capacity(cnt * w);
            for _ in 0..cnt {
                same.extend_from_slice(&rd(cnt / 2));
            }
            try_fault(Op::SetBytes { offset: o, data: same }, "F11-table-order", stats, &mut n);
            let mut near = rd(0);
            let lastb = near.len() - 1;
            near[lastb] = near[lastb].wrapping_add(1);
            try_fault(Op::SetBytes { offset: o + (cnt - 1) * w, data: near }, "F11-table-order", stats, &mut n);
        }
        // F4 single bit flips: all of both headers and the footer, a sample of the data
        let mut bits: Vec<usize> = Vec::new();
        for h in &l.headers {
            for b in h * 8..(h + 44) * 8 {
                bits.push(b);
            }
        }
        for b in l.footer_start * 8..base.len() * 8 {
            bits.push(b);
        }
        if exhaustive_bits && base.len() <= 1024 {
            bits = (0..base.len() * 8).collect();
            stats.inc("c19.exhaustive.every_single_bit_flip_of_file");
        } else {
            for _ in 0..200 {
                bits.push(rng.usize(base.len() * 8));
            }
            stats.inc("c19.exhaustive.every_single_bit_flip_of_headers_and_footer");
        }
        for b in bits {
            try_fault(Op::BitFlip { bit: b }, "F4-bit-flip", stats, &mut n);
        }
    }
    // F3 lost blocks
    for size in [1usize, 16, 512, 4096] {
        let mut offs: Vec<usize> = (0..base.len()).step_by(size).collect();
        if offs.len() > 64 {
            let mut pick = Vec::new();
            for _ in 0..64 {
                pick.push(offs[rng.usize(offs.len())]);
            }
            offs = pick;
        }
        for o in offs {
            for fill in [0u8, 0xFF] {
                try_fault(Op::LostBlock { offset: o, len: size, fill }, "F3-lost-block", stats, &mut n);
            }
        }
    }
    drop(try_fault);
    stats.violations.extend(found);
    SimClock::uninstall();
    SimFs::uninstall();
    // F13 indicator arrays: the standard/wall and UT/local arrays present independently of each
    // other, with the wrong length, and with bytes other than 0 and 1 (rebuilt files, so that the
    // rest of the layout stays consistent)
    if let Ok(z) = tzref::parse_tzif(base) {
        let fs = SimFs::install(None);
        let clock = SimClock::install(Instant::new(0, 0));
        let host = Host { fs, clock };
        let nt = z.types.len();
        let variants: Vec<(Vec<u8>, Vec<u8>)> = vec![
            (vec![], vec![1; nt]),
            (vec![0; nt], vec![1; nt]),
            (vec![1; nt], vec![]),
            (vec![2; nt], vec![255; nt]),
            (vec![1; nt.saturating_sub(1)], vec![1; nt]),
            (vec![1; nt + 1], vec![0; nt]),
            (vec![1; nt], vec![1; nt + 3]),
        ];
        for (isstd, isut) in variants {
            let mut spec = tzsim::spec_from_ref(&z);
            spec.isstd = isstd;
            spec.isut = isut;
            let bytes = spec.build();
            n += 1;
            stats.inc("c19.fault.indicator_arrays.injected");
            stats.add("c19.lookups.direct", instants.len() as u64);
            if let Err((f, lookup)) = probe(&host, Some(&bytes), &instants, n ^ run, stats) {
                stats.inc("c19.outcome.violation_scenarios");
                stats.violations.push(report(seed, run, "F13-indicator-arrays", &bytes, None, lookup, f));
                break;
            }
        }
        SimClock::uninstall();
        SimFs::uninstall();
    }
    // F12 zone swap: not damage - the intact file is replaced by a sibling (same transition
    // instants, re-indexed or smaller type table; or one footer component changed) and back, with
    // the whole lookup battery after each step. Whatever the reader remembers must not cross files.
    if let Ok(z) = tzref::parse_tzif(base) {
        for _ in 0..4 {
            if let Some(sib) = tzsim::sibling_of(&z, rng) {
                let mut ops: Vec<Op> = instants.iter().map(|t| Op::LookupDirect { t: *t }).collect();
                ops.push(Op::Replace(sib));
                ops.extend(instants.iter().map(|t| Op::LookupDirect { t: *t }));
                ops.push(Op::LookupLocal { secs: 1_700_000_000, nanos: 0, what: 0 });
                ops.push(Op::Replace(base.to_vec()));
                ops.extend(instants.iter().map(|t| Op::LookupDirect { t: *t }));
                let sc = Scenario { base: Some(base.to_vec()), ops };
                n += 1;
                stats.inc("c19.fault.zone_swap_to_sibling.injected");
                if let Err(f) = execute(&sc, &mut None) {
                    stats.inc("c19.outcome.violation_scenarios");
                    stats.violations.push(to_violation(seed, run, "F12-zone-swap", &sc, &f));
                    break;
                }
            }
        }
    }
    n
}

// ------------------------------------------------------------------------------------------------
// F7: hostile footers
// ------------------------------------------------------------------------------------------------

const HOSTILE_NUMS: &[&str] = &[
    "0", "1", "5", "6", "7", "9", "12", "13", "24", "25", "59", "60", "99", "167", "168", "255", "256", "365", "366", "367", "400", "999", "65535", "65536", "2147483647", "2147483648", "4294967295",
    "4294967296", "99999999999", "18446744073709551616", "1111111111111111111111111111111111111111", "00", "007", "-1", "-0", "+1",
];

pub fn carrier(rng: &mut Rng, footer: &[u8]) -> Vec<u8> {
    // a file whose lookups reach the footer: no transitions (footer always in charge) or a few
    let version = if rng.chance(1, 2) { 3 } else { 2 };
    let mut spec = tzgen::TzSpec {
        version,
        trans: Vec::new(),
        types: vec![(3600, false, 0)],
        chars: b"LMT\0".to_vec(),
        leaps: Vec::new(),
        isstd: Vec::new(),
        isut: Vec::new(),
        footer: Some(String::new()),
        v1_mode: rng.below(3) as u8,
    };
    match rng.below(4) {
        0 => {}
        1 => spec.types.clear(), // as the in-crate tests do: zero types, the footer is everything
        2 => spec.trans = vec![(0, 0)],
        _ => spec.trans = vec![(-1_000_000_000, 0), (1_000_000_000, 0)],
    }
    let mut b = spec.build();
    b.truncate(b.len() - 1);
    b.extend_from_slice(footer);
    b.push(b'\n');
    b
}

fn gen_hostile_footer(rng: &mut Rng, corpus_footers: &[String]) -> Vec<u8> {
    let pick_num = |rng: &mut Rng| HOSTILE_NUMS[rng.usize(HOSTILE_NUMS.len())].to_string();
    let date = |rng: &mut Rng| -> String {
        match rng.below(3) {
            0 => format!("J{}", pick_num(rng)),
            1 => pick_num(rng).trim_start_matches(['-', '+']).to_string(),
            _ => format!("M{}.{}.{}", pick_num(rng), pick_num(rng), pick_num(rng)),
        }
    };
    let time = |rng: &mut Rng| -> String {
        match rng.below(5) {
            0 => String::new(),
            1 => format!("/{}", pick_num(rng)),
            2 => format!("/{}:{}", pick_num(rng), pick_num(rng)),
            3 => format!("/{}:{}:{}", pick_num(rng), pick_num(rng), pick_num(rng)),
            _ => format!("/{}:{}:{}:{}{}", pick_num(rng), pick_num(rng), pick_num(rng), pick_num(rng), if rng.chance(1, 2) { ":0" } else { "" }),
        }
    };
    let mut s: Vec<u8> = match rng.below(13) {
        10..=12 => {
            // every field inside its legal range, but the rule as a whole is degenerate: both
            // switch-overs on the same date or the same instant, no offset difference, huge offset
            // difference, switch-overs at the very start or end of the year (crossing into the
            // neighbouring year with signed times), reversed or adjacent dates
            let dates = ["M3.5.0", "M3.4.0", "M10.5.0", "M1.1.0", "M1.1.1", "M12.5.6", "M12.5.0", "M2.4.0", "M2.5.3", "M2.4.2", "J1", "J365", "J59", "J60", "J61", "0", "365", "364", "58", "59", "60", "1"];
            let times = ["", "/0", "/1", "/2", "/3", "/24", "/-1", "/-24", "/25", "/167", "/-167", "/26:59:59", "/1:00:01", "/0:59:59", "/2:00:00:00", "/1:2:3:4:5", "/2:00:00:"];
            let offs = ["-1", "0", "1", "-14", "12", "24", "-24", "-0:00:01", "11:59:59"];
            let dsts = ["", "-2", "-1", "0", "1", "-1:00:01", "24", "-24", "-15"];
            let a = *rng.pick(&dates);
            let b = match rng.below(3) {
                0 => a,
                _ => *rng.pick(&dates),
            };
            format!("STD{}DST{},{}{},{}{}", rng.pick(&offs), rng.pick(&dsts), a, rng.pick(&times), b, rng.pick(&times)).into_bytes()
        }
        0..=5 => {
            // grammar-shaped with hostile numbers
            let name = *rng.pick(&["CET", "<+0330>", "<-03>", "A", "", "<", "<>", "LONGNAME", "X1", "<+03\u{20ac}>", "<\u{e9}\u{e9}>", "<\u{1f600}>", "C\u{e9}T", "<\u{e9}+03>"]);
            let off = match rng.below(5) {
                0 => "-1".to_string(),
                1 => pick_num(rng),
                2 => format!("{}:{}", pick_num(rng), pick_num(rng)),
                3 => format!("{}:{}:{}", pick_num(rng), pick_num(rng), pick_num(rng)),
                _ => format!("1:{}:{}:{}", pick_num(rng), pick_num(rng), pick_num(rng)),
            };
            let dname = *rng.pick(&["CEST", "<+0430>", "", "D"]);
            let doff = if rng.chance(1, 2) { String::new() } else { pick_num(rng) };
            format!("{}{}{}{},{}{},{}{}", name, off, dname, doff, date(rng), time(rng), date(rng), time(rng)).into_bytes()
        }
        6 | 7 => {
            // a real footer with one number replaced
            let f = rng.pick(corpus_footers).clone();
            let b = f.as_bytes();
            let mut spans: Vec<(usize, usize)> = Vec::new();
            let mut i = 0;
            while i < b.len() {
                if b[i].is_ascii_digit() {
                    let s = i;
                    while i < b.len() && b[i].is_ascii_digit() {
                        i += 1;
                    }
                    spans.push((s, i));
                } else {
                    i += 1;
                }
            }
            if spans.is_empty() {
                f.into_bytes()
            } else {
                let (s, e) = spans[rng.usize(spans.len())];
                let mut out = b[..s].to_vec();
                out.extend_from_slice(pick_num(rng).trim_start_matches(['-', '+']).as_bytes());
                out.extend_from_slice(&b[e..]);
                out
            }
        }
        8 => {
            // separators missing or doubled
            let f = rng.pick(corpus_footers).clone();
            let mut b = f.into_bytes();
            if !b.is_empty() {
                let i = rng.usize(b.len());
                match rng.below(3) {
                    0 => {
                        b.remove(i);
                    }
                    1 => {
                        let c = b[i];
                        b.insert(i, c);
                    }
                    _ => b.insert(i, *rng.pick(&[b',', b'.', b'/', b':', b'<', b'>', b'-', b'+', b'J', b'M'])),
                }
            }
            b
        }
        _ => {
            let f = rng.pick(corpus_footers).clone();
            let mut b = f.into_bytes();
            let i = rng.usize(b.len() + 1);
            let ins: &[u8] = match rng.below(8) {
                0 => b"\0",
                1 => b"\xFF",
                2 => b"\xC3",
                3 => b"\n",
                // valid multi-byte UTF-8 (2, 3 and 4 bytes)
                4 => "\u{e9}".as_bytes(),
                5 => "\u{20ac}".as_bytes(),
                6 => "\u{1f600}".as_bytes(),
                _ => "\u{e9}\u{e9}".as_bytes(),
            };
            for (k, x) in ins.iter().enumerate() {
                b.insert(i + k, *x);
            }
            b
        }
    };
    if rng.chance(1, 30) {
        s.pop();
    }
    s
}

pub fn corpus_footers() -> Vec<String> {
    let mut set = std::collections::BTreeSet::new();
    for (_, p) in tzsim::corpus_files() {
        if let Ok(b) = std::fs::read(&p) {
            if let Ok(z) = tzref::parse_tzif(&b) {
                if !z.footer_text.is_empty() {
                    set.insert(z.footer_text);
                }
            }
        }
    }
    let mut v: Vec<String> = set.into_iter().collect();
    if v.is_empty() {
        v.push("CET-1CEST,M3.5.0,M10.5.0/3".into());
    }
    v
}

const EDIT_ALPHABET: &[u8] = b"0123456789,./:<>-+JMA\0\xFF\n ";

fn footer_single_edits(f: &str) -> Vec<Vec<u8>> {
    let b = f.as_bytes();
    let mut out = Vec::new();
    for i in 0..b.len() {
        let mut d = b.to_vec();
        d.remove(i);
        out.push(d);
        for &c in EDIT_ALPHABET {
            if c != b[i] {
                let mut r = b.to_vec();
                r[i] = c;
                out.push(r);
            }
        }
    }
    for i in 0..=b.len() {
        for &c in EDIT_ALPHABET {
            let mut r = b.to_vec();
            r.insert(i, c);
            out.push(r);
        }
        // valid multi-byte characters at every position (only where the result is still UTF-8,
        // i.e. everywhere in an ASCII footer)
        for ins in ["\u{e9}", "\u{20ac}", "\u{e9}\u{e9}"] {
            let mut r = b[..i].to_vec();
            r.extend_from_slice(ins.as_bytes());
            r.extend_from_slice(&b[i..]);
            out.push(r);
        }
    }
    out
}

// ------------------------------------------------------------------------------------------------
// Seeded fault sequences
// ------------------------------------------------------------------------------------------------

fn pick_base(rng: &mut Rng, corpus: &[(String, std::path::PathBuf)]) -> Vec<u8> {
    if !corpus.is_empty() && rng.chance(1, 2) {
        if let Ok(b) = std::fs::read(&corpus[rng.usize(corpus.len())].1) {
            return b;
        }
    }
    tzgen::synth(rng).spec.build()
}

fn gen_lookup(rng: &mut Rng, bat: &[i64]) -> Op {
    if rng.chance(1, 2) {
        let t = match rng.below(3) {
            0 => *rng.pick(bat),
            1 => rng.range(-3_000_000_000, tzsim::MAX_CLOCK),
            _ => rng.range(MIN_TS, MAX_TS),
        };
        Op::LookupDirect { t }
    } else {
        Op::LookupLocal { secs: rng.range(0, tzsim::MAX_CLOCK) as u64, nanos: rng.below(1_000_000_000) as u32, what: rng.below(3) as u8 }
    }
}

pub fn gen_sequence(rng: &mut Rng, corpus: &[(String, std::path::PathBuf)], footers: &[String]) -> Scenario {
    let bat = battery_instants();
    let base = pick_base(rng, corpus);
    let mut cur_len = base.len().max(1);
    let mut ops = Vec::new();
    let n_faults = rng.range(1, 5);
    for _ in 0..n_faults {
        let op = match rng.weighted(&[3, 3, 3, 3, 2, 2, 2, 1, 2, 4, 1, 2]) {
            11 => {
                // not damage at all: the zone is replaced by a sibling with the same transition
                // instants but a re-indexed (possibly smaller) type table, or one differing in a
                // single footer component - whatever the reader remembered about the old file
                // must not be applied to the new one
                match tzref::parse_tzif(&base).ok().and_then(|z| tzsim::sibling_of(&z, rng)) {
                    Some(b) => Op::Replace(b),
                    None => Op::Replace(pick_base(rng, corpus)),
                }
            }
            0 => Op::Truncate(rng.usize(cur_len + 1)),
            1 => {
                let new = pick_base(rng, corpus);
                let cut = match rng.below(3) {
                    0 => (rng.usize(new.len() / 512 + 1)) * 512,
                    1 => (rng.usize(new.len() / 4096 + 1)) * 4096,
                    _ => rng.usize(new.len() + 1),
                };
                Op::TornRewrite { new, cut, keep_old_tail: rng.chance(2, 3) }
            }
            2 => {
                let size = *rng.pick(&[1usize, 2, 4, 8, 64, 512, 4096]);
                Op::LostBlock { offset: rng.usize(cur_len) / size * size, len: size, fill: if rng.chance(1, 2) { 0 } else { 0xFF } }
            }
            3 => Op::BitFlip { bit: rng.usize(cur_len * 8) },
            4 => Op::SetBytes { offset: rng.usize(cur_len), data: be32(*rng.pick(&[0u32, 1, 255, 1 << 24, u32::MAX, (1 << 31) - 1])) },
            5 => {
                let foot = gen_hostile_footer(rng, footers);
                Op::Replace(carrier(rng, &foot))
            }
            6 => Op::ReadError(match rng.below(4) {
                0 => ReadFault::NotFound,
                1 => ReadFault::PermissionDenied,
                2 => ReadFault::Eio,
                _ => ReadFault::Interrupted,
            }),
            7 => match rng.below(5) {
                0 => Op::Fill { len: 0, byte: 0 },
                1 => Op::Fill { len: 1, byte: b'T' },
                2 => Op::Fill { len: 1 << 20, byte: 0 },
                3 => Op::Fill { len: 1 << 20, byte: 0xFF },
                _ => Op::RandomFill { len: 1 << rng.range(4, 20), seed: rng.next_u64() },
            },
            8 => Op::Remove,
            9 => {
                // the writer rewrites in place (or truncates then writes) while a read is in progress
                let new = pick_base(rng, corpus);
                let chunk = *rng.pick(&[1usize, 7, 64, 512, 4096, 65536]);
                let nchunks = cur_len / chunk + 1;
                let mut steps = Vec::new();
                let truncate_first = rng.chance(1, 2);
                let mut k = rng.usize(nchunks);
                if truncate_first {
                    steps.push((k, WriterStep::Truncate { len: 0 }));
                }
                let wchunk = *rng.pick(&[512usize, 4096, 100_000]);
                let mut off = 0;
                while off < new.len() {
                    let end = (off + wchunk).min(new.len());
                    steps.push((k, WriterStep::PwriteAt { offset: off, data: new[off..end].to_vec() }));
                    off = end;
                    if rng.chance(1, 2) {
                        k += 1;
                    }
                }
                if rng.chance(1, 4) {
                    steps = vec![(rng.usize(nchunks), WriterStep::RenameReplace { data: new })];
                }
                Op::Interleave { chunk, steps }
            }
            _ => Op::Replace(pick_base(rng, corpus)),
        };
        // track a plausible current length for later faults
        let mut tmp = Some(vec![0u8; cur_len]);
        apply_fault(&mut tmp, &op);
        cur_len = tmp.map(|t| t.len()).unwrap_or(1).max(1);
        let interleave = matches!(op, Op::Interleave { .. } | Op::ReadError(_));
        ops.push(op);
        // faults are placed inside activity: every fault step is followed by lookups
        let n_look = rng.range(1, 3);
        for i in 0..n_look {
            if interleave && i == 0 {
                ops.push(Op::LookupLocal { secs: rng.range(0, tzsim::MAX_CLOCK) as u64, nanos: 0, what: rng.below(3) as u8 });
            } else {
                ops.push(gen_lookup(rng, &bat));
            }
        }
    }
    // one sequence in sixty ends with a long run of lookups creeping through time on whatever is
    // stored now (a daemon asking every few seconds): counters and caches inside the reader
    if rng.chance(1, 60) {
        let mut t = rng.range(-1_000_000_000, tzsim::MAX_CLOCK - 100_000_000);
        let step = *rng.pick(&[1i64, 30, 600, 86_400]);
        for _ in 0..rng.range(600, 1500) {
            ops.push(Op::LookupDirect { t });
            t += rng.range(1, step.max(2));
        }
    }
    // recovery: faults stop, an intact file is installed, the process keeps looking up
    ops.push(Op::Replace(pick_base(rng, corpus)));
    for _ in 0..3 {
        ops.push(gen_lookup(rng, &bat));
    }
    Scenario { base: if rng.chance(1, 20) { None } else { Some(base) }, ops }
}

// ------------------------------------------------------------------------------------------------
// Check entry points
// ------------------------------------------------------------------------------------------------

pub struct Work {
    pub corpus: Vec<(String, std::path::PathBuf)>,
    pub enum_corpus: Vec<usize>,
    pub n_enum_synth: u64,
    pub n_sequences: u64,
    pub n_footers: u64,
    pub edit_footers: Vec<String>,
    pub footers: Vec<String>,
    pub thorough: bool,
}

pub fn work(tier: &str) -> Work {
    let corpus = tzsim::corpus_files();
    let footers = corpus_footers();
    if tier == "quick" {
        let enum_corpus: Vec<usize> = (0..corpus.len()).filter(|i| i % 23 == 0).collect();
        let edit_footers: Vec<String> = footers.iter().enumerate().filter(|(i, _)| i % 4 == 0).map(|(_, f)| f.clone()).collect();
        Work { corpus, enum_corpus, n_enum_synth: 300, n_sequences: 20_000, n_footers: 20_000, edit_footers, footers, thorough: false }
    } else {
        let enum_corpus: Vec<usize> = (0..corpus.len()).collect();
        let edit_footers = footers.clone();
        Work { corpus, enum_corpus, n_enum_synth: 20_000, n_sequences: 10_000_000, n_footers: 5_000_000, edit_footers, footers, thorough: true }
    }
}

const FOOTERS_PER_RUN: u64 = 50;

pub fn one_run(w: &Work, seed: u64, idx: u64, stats: &mut Stats) -> u64 {
    let n_ec = w.enum_corpus.len() as u64;
    let mut rng = Rng::new(rng::run_seed(seed, "C19", idx));
    let mut h = 0u64;
    if idx < n_ec + w.n_enum_synth {
        // fault enumeration over one base file
        let base = if idx < n_ec {
            match std::fs::read(&w.corpus[w.enum_corpus[idx as usize]].1) {
                Ok(b) => b,
                Err(_) => return 0,
            }
        } else {
            tzgen::synth(&mut rng).spec.build()
        };
        stats.inc("c19.bases_enumerated");
        stats.note("c19.distinct_bases", fnv(&base));
        let n = enumerate_base(seed, idx, &base, w.thorough || base.len() <= 256, &mut rng, stats);
        stats.add("c19.scenarios", n);
        stats.add("c19.scenarios.enumerated", n);
        if idx % 97 == 0 && idx < 97 * 2 {
            stats.samples.push((
                idx,
                Json::obj()
                    .set("family", Json::s("fault enumeration over one base file"))
                    .set("base_bytes", Json::u(base.len()))
                    .set("base_footer", Json::s(&tzref::parse_tzif(&base).map(|z| z.footer_text).unwrap_or_default()))
                    .set("scenarios", Json::Int(n as i128))
                    .set("each", Json::s("one structural fault (every prefix; each header count x {0,1,exact-1,exact+1,2^24,2^31-1,2^32-1,...}; version; magic; type indices := typecnt/255; typecnt := 0; single bit flips; lost blocks 1/16/512/4096 B as 0x00/0xFF) followed by 30+ direct lookups over the whole DateTime range and 4 lookups through Offset::Local / now_local()")),
            ));
        }
        return n;
    }
    let idx2 = idx - n_ec - w.n_enum_synth;
    let n_seq = w.n_sequences;
    if idx2 < n_seq {
        let sc = gen_sequence(&mut rng, &w.corpus, &w.footers);
        stats.inc("c19.scenarios");
        stats.inc("c19.scenarios.seeded_sequences");
        let mut kinds = 0x77u64;
        for o in &sc.ops {
            kinds = fnv_mix(kinds, fnv(fault_name(o).as_bytes()));
        }
        stats.note("c19.interleavings", kinds);
        match execute(&sc, &mut Some(stats)) {
            Ok(log) => {
                stats.add("c19.outcome.offset", log.offsets);
                stats.add("c19.outcome.error_handled(parse_rejected)", log.errors_handled);
                stats.add("c19.lookups.in_sequences", log.offsets + log.errors_handled);
                h = log.hash;
                if idx2 % 1009 == 0 && idx2 < 1009 * 3 {
                    stats.samples.push((
                        idx,
                        Json::obj().set("family", Json::s("seeded fault sequence")).set(
                            "ops",
                            Json::Arr(sc.ops.iter().map(|o| {
                                let j = op_to_json(o);
                                // keep samples readable: drop bulk data
                                let mut small = Json::obj();
                                if let Json::Obj(kv) = j {
                                    for (k, v) in kv {
                                        match &v {
                                            Json::Str(s) if s.len() > 48 => small.put(&k, Json::s(&format!("<{} bytes>", s.len() / 2))),
                                            Json::Arr(a) if a.len() > 3 => small.put(&k, Json::s(&format!("<{} writer steps>", a.len()))),
                                            _ => small.put(&k, v),
                                        }
                                    }
                                }
                                small
                            }).collect()),
                        ),
                    ));
                }
            }
            Err(f) => {
                stats.inc("c19.outcome.violation_scenarios");
                h = fnv(f.observed.as_bytes());
                stats.violations.push(to_violation(seed, idx, "seeded-sequence", &sc, &f));
            }
        }
        return h;
    }
    // F7: hostile footers (FOOTERS_PER_RUN per run index), then all single-byte edits of real footers
    let idx3 = idx2 - n_seq;
    let n_footer_runs = w.n_footers / FOOTERS_PER_RUN;
    let fs = SimFs::install(None);
    let clock = SimClock::install(Instant::new(0, 0));
    let host = Host { fs, clock };
    let instants = battery_instants();
    let mut keys_seen = std::collections::BTreeSet::new();
    let mut run_footer = |foot: Vec<u8>, family: &str, rng: &mut Rng, stats: &mut Stats| {
        let file = carrier(rng, &foot);
        stats.inc("c19.scenarios");
        stats.inc(&format!("c19.scenarios.{}", family));
        stats.inc("c19.fault.hostile_footer.injected");
        stats.add("c19.lookups.direct", instants.len() as u64);
        stats.note("c19.distinct_footers", fnv(&foot));
        if let Err((f, lookup)) = probe(&host, Some(&file), &instants, fnv(&foot), stats) {
            stats.inc("c19.outcome.violation_scenarios");
            let k = format!("{}:{:?}", f.invariant, f.panic.as_ref().map(|p| p.key()));
            if keys_seen.insert(k) {
                stats.violations.push(report(seed, idx, family, &file, None, lookup, f));
            }
        }
    };
    if idx3 < n_footer_runs {
        for _ in 0..FOOTERS_PER_RUN {
            let foot = gen_hostile_footer(&mut rng, &w.footers);
            if idx3 % 131 == 0 && idx3 < 131 * 2 && stats.samples.iter().filter(|(r, _)| *r == idx).count() < 2 {
                stats.samples.push((idx, Json::obj().set("family", Json::s("hostile footer")).set("footer", Json::s(&String::from_utf8_lossy(&foot)))));
            }
            run_footer(foot, "F7-hostile-footer-grammar", &mut rng, stats);
        }
    } else {
        let k = (idx3 - n_footer_runs) as usize;
        if let Some(f) = w.edit_footers.get(k) {
            for e in footer_single_edits(f) {
                run_footer(e, "F7-footer-single-byte-edit", &mut rng, stats);
            }
            stats.inc("c19.exhaustive.all_single_byte_edits_of_footer");
        }
    }
    drop(run_footer);
    SimClock::uninstall();
    SimFs::uninstall();
    h
}

pub fn total_runs(w: &Work) -> u64 {
    w.enum_corpus.len() as u64 + w.n_enum_synth + w.n_sequences + w.n_footers / FOOTERS_PER_RUN + w.edit_footers.len() as u64
}

pub fn check(tier: &str, seed: u64) -> i32 {
    let t0 = std::time::Instant::now();
    let mut w = work(tier);
    if let Some(n) = std::env::var("VERIF_C19_SEQ").ok().and_then(|v| v.parse().ok()) {
        w.n_sequences = n;
    }
    let total = total_runs(&w);
    let wr = &w;
    let mut stats = crate::runner::run_parallel(
        total,
        |idx, stats| {
            one_run(wr, seed, idx, stats);
        },
        |idx| {
            // every run is a function of (tier, seed, run index): the replay re-executes that run
            let doc = Json::obj()
                .set("property", Json::s("C19"))
                .set("engine", Json::s("faults"))
                .set("invariant", Json::s("L0-hang"))
                .set("seed", Json::Int(seed as i128))
                .set("run", Json::Int(idx as i128))
                .set("rerun_run", Json::Int(idx as i128))
                .set("observed", Json::s("a call into astrolabe did not return within the watchdog limit"))
                .set("tier", Json::s(tier));
            crate::cronsim::hang_report("C19", seed, idx, doc);
        },
    );
    let wall = t0.elapsed().as_secs_f64();
    let mut violations = std::mem::take(&mut stats.violations);
    let outcome = crate::report::report_violations("C19", seed, &mut violations);
    let scenarios = stats.get("c19.scenarios");
    let distinct = stats.distinct("c19.interleavings") + stats.distinct("c19.distinct_footers") + stats.distinct("c19.distinct_bases");
    let coverage = Json::obj()
        .set("evaluations", Json::Int(scenarios as i128))
        .set("distinct_nontrivial", Json::Int(distinct as i128))
        .set("rule", Json::s("one evaluation = one fault scenario against the stored /etc/localtime followed by lookups through the direct TZif entry (whole DateTime range) and through the simulated file and clock into Offset::Local.resolve() / DateTime::now_local().format() / Time::now_local().hour(). Three families: (1) fault enumeration over a base file (every truncation point, header counts x hostile values, version, magic, type indices, typecnt := 0, single-bit flips, lost blocks); (2) seeded fault sequences of 1-5 faults (truncate, torn rewrite, lost block, bit flip, count overwrite, hostile footer, read errors, degenerate files, removal, rewrite interleaved with the chunked read) each followed by lookups, then recovery on an intact file; (3) hostile POSIX-TZ footers from a mutated grammar and all single-byte edits of real footers. distinct_nontrivial = distinct base files enumerated + distinct fault-kind sequences among seeded sequences + distinct hostile footer strings (each is a different damaged input or history; exact duplicates are not counted twice)"))
        .set("samples", Json::Arr(stats.samples.iter().map(|(_, j)| j.clone()).collect()))
        .set("scenarios", stats.counters_json("c19.scenarios."))
        .set("bases_enumerated", Json::Int(stats.get("c19.bases_enumerated") as i128))
        .set("exhaustive_subspaces_completed", stats.counters_json("c19.exhaustive."))
        .set("exhaustive", Json::Bool(false))
        .set("faults", stats.counters_json("c19.fault."))
        .set("outcomes", stats.counters_json("c19.outcome."))
        .set("lookups", stats.counters_json("c19.lookups."))
        .set("reach", stats.counters_json("c19.reach."))
        .set("reach_probes_at_zero", crate::report::probes_at_zero(&stats, &["c19.reach.damaged_file_still_parses","c19.fault.interleaved_rewrite.effective(read_mixed_two_versions)","c19.fault.truncate.effective(bytes_changed)","c19.fault.bit_flip.effective(bytes_changed)","c19.fault.lost_block.effective(bytes_changed)","c19.fault.torn_rewrite.effective(bytes_changed)","c19.fault.read_error.effective.Other","c19.fault.read_error.effective.Interrupted","c19.fault.hostile_footer.injected","c19.fault.remove_file.injected","c19.outcome.error_handled(parse_rejected)","c19.outcome.offset"]))
        .set("distinct_fault_kind_sequences", Json::Int(stats.distinct("c19.interleavings") as i128))
        .set("distinct_hostile_footers", Json::Int(stats.distinct("c19.distinct_footers") as i128))
        .set("scenarios_per_hour", Json::Int((scenarios as f64 / wall.max(1e-9) * 3600.0) as i128))
        .set("lookup_range", Json::s(&format!("direct lookups at {} .. {} (first and last representable DateTime seconds), local-path lookups with the clock in 1970..2242", MIN_TS, MAX_TS)))
        .set("real_components", Json::s("offset.rs resolve, local/** (cursor, header, data block, footer parser, rule evaluation, lookup), datetime.rs/time.rs now_local/format/getters"))
        .set("stubbed_components", Json::s("SystemTime::now() and fs::read(\"/etc/localtime\") (SimFs: inode table, chunked read loop with writer steps in between, injected error kinds)"))
        .set("known_findings_matched", Json::u(outcome.known))
        .set("threads", Json::u(crate::runner::threads()));
    crate::report::write_evidence(
        "C19",
        tier,
        seed,
        "fault_enumeration",
        coverage,
        &[
            "invariant judged: no panic (overflow checks and debug assertions on), no hang (20 s watchdog per call), no single allocation request above 1 GiB + 64 x file size (judged like an abort); which offset a damaged file yields is not judged",
            "std::fs::read retries EINTR and loops over short reads internally, so what astrolabe can observe is an error kind or some byte string; the simulated read loop reproduces the byte strings a racing non-atomic rewrite can produce",
        ],
        wall,
        outcome.reported,
    );
    println!(
        "C19 {}: {} fault scenarios ({} enumerated, {} sequences, {} hostile footers), outcomes: {} offsets / {} rejected, {:.1}s, violations={}",
        tier,
        scenarios,
        stats.get("c19.scenarios.enumerated"),
        stats.get("c19.scenarios.seeded_sequences"),
        stats.get("c19.scenarios.F7-hostile-footer-grammar") + stats.get("c19.scenarios.F7-footer-single-byte-edit"),
        stats.get("c19.outcome.offset"),
        stats.get("c19.outcome.error_handled(parse_rejected)"),
        wall,
        outcome.reported
    );
    outcome.exit_code
}

pub fn replay(doc: &Json) -> i32 {
    if let Some(idx) = doc.get("rerun_run").and_then(|v| v.int()) {
        let tier = doc.get("tier").and_then(|v| v.str()).unwrap_or("quick");
        let seed = doc.get("seed").and_then(|v| v.int()).unwrap_or(1) as u64;
        let w = work(tier);
        let mut st = Stats::default();
        println!("replay: re-executing run {} of the {} tier under seed {}", idx, tier, seed);
        one_run(&w, seed, idx as u64, &mut st);
        if let Some(v) = st.violations.first() {
            println!("replay: [{}] {}", v.invariant, v.what);
            return 1;
        }
        println!("replay: the run completes; every call returned");
        return 0;
    }
    let sc = match doc.get("scenario").ok_or("no scenario".to_string()).and_then(scenario_from_json) {
        Ok(s) => s,
        Err(e) => {
            eprintln!("HARNESS-ERROR: bad replay file: {}", e);
            return 2;
        }
    };
    let inv = doc.get("invariant").and_then(|v| v.str()).unwrap_or("").to_string();
    let want_obs = doc.get("observed").and_then(|v| v.str()).unwrap_or("").to_string();
    match execute(&sc, &mut None) {
        Ok(log) => {
            println!("replay: scenario executes; {} lookups answered, {} rejected as errors; the process stays alive", log.offsets, log.errors_handled);
            0
        }
        Err(f) => {
            println!("replay: [{}] step {}: {}", f.invariant, f.step, f.observed);
            if f.invariant == inv && f.observed == want_obs {
                println!("replay: reproduced exactly");
            } else {
                println!("replay: a violation occurs but differs from the recorded one ([{}] {})", inv, want_obs);
            }
            1
        }
    }
}
