//! C18 engine: a simulated host = (zone file behind /etc/localtime, wall clock). Every lookup goes
//! through the real `Offset::Local` path (and the direct TZif entry for instants before 1970) and
//! is compared with the reference RFC 8536 / POSIX-TZ evaluator.

use crate::cal;
use crate::json::{hex, unhex, Json};
use crate::report::{fnv, fnv_mix, Stats, Violation};
use crate::rng::{self, Rng};
use crate::tzgen::{self, TzSpec};
use crate::tzref::{self, Answer, Footer, RefZone};
use crate::world::{guarded, Instant, PanicInfo, SimClock, SimFs, WriterStep};
use astrolabe::{DateTime, DateUtilities, Offset, Time, TimeUtilities};

#[derive(Clone, Debug)]
pub struct Fail {
    pub invariant: &'static str,
    pub t: i64,
    pub nanos: u32,
    pub path: &'static str,
    pub observed: String,
    pub expected: String,
    pub region: String,
    pub panic: Option<PanicInfo>,
    /// The failing lookup was answered from the file installed by the atomic upgrade.
    pub on_upgraded: bool,
}

#[derive(Clone, Debug)]
pub struct ZoneCase {
    pub label: String,
    pub source: &'static str,
    pub bytes: Vec<u8>,
}

#[derive(Clone, Debug)]
pub struct Knobs {
    /// Simulated cost of one clock read in nanoseconds ("slow node").
    pub read_cost_ns: u64,
    /// Every k-th non-negative instant gets the full getter battery (0 = never).
    pub battery_every: u32,
    /// Atomic upgrade: replace the file by rename with this content before lookup number `at`.
    pub upgrade: Option<(usize, Vec<u8>)>,
    /// Later local-lookup positions at which the file is switched again (back to the first file,
    /// then to the second, ...): an administrator changing the system zone back and forth.
    pub toggles: Vec<usize>,
}

pub const MAX_CLOCK: i64 = 16_725_225_600; // 2500-01-01T00:00:00Z

pub fn region(z: &RefZone, t: i64) -> String {
    let leap_tail = {
        let (y, m, _, _, _, _) = cal::civil_from_unix(t);
        if cal::is_leap(y) && m >= 3 {
            "+leap-year-after-feb"
        } else {
            ""
        }
    };
    let foot = match &z.footer {
        Footer::Absent => "no-footer".to_string(),
        Footer::Empty => "empty-footer".to_string(),
        Footer::Rule(r) => match &r.dst {
            None => "footer-fixed".to_string(),
            Some(d) => {
                let k = |x: &tzref::RuleDate| match x {
                    tzref::RuleDate::J(_) => "J",
                    tzref::RuleDate::N(_) => "n",
                    tzref::RuleDate::M { .. } => "M",
                };
                let near = r.distance_to_switch(t) <= 1;
                format!("footer-rule-{}{}{}", k(&d.start), k(&d.end), if near { "@switch" } else { "" })
            }
        },
    };
    if z.trans.is_empty() {
        return format!("no-transitions:{}{}", foot, leap_tail);
    }
    let first = z.trans[0].0;
    let last = z.trans[z.trans.len() - 1].0;
    if t < first {
        "before-first-transition".into()
    } else if t >= last {
        if t == last {
            format!("at-last-transition:{}", foot)
        } else {
            format!("after-last-transition:{}{}", foot, leap_tail)
        }
    } else if z.trans.binary_search_by(|(tt, _)| tt.cmp(&t)).is_ok() {
        "at-transition".into()
    } else {
        "between-transitions".into()
    }
}

/// The instants a configuration is looked up at.
pub fn instants_for(z: &RefZone, rng: &mut Rng, n_random: usize, rule_years: usize) -> Vec<i64> {
    let mut v: Vec<i64> = Vec::new();
    let d = if z.leaps.is_empty() { 1 } else { 61 };
    for (t, _) in &z.trans {
        v.push(t - d);
        v.push(*t);
        v.push(t + d);
    }
    // inside every gap between consecutive transitions: a random instant and the quarter points
    // (a reader that drops, merges or misplaces a whole interval is wrong here and nowhere else)
    for w in z.trans.windows(2) {
        let (a, b) = (w[0].0, w[1].0);
        if b - a >= 4 {
            v.push(rng.range(a + 1, b - 1));
            v.push(a + (b - a) / 4);
            v.push(a + (b - a) / 4 * 3);
        }
    }
    let start = z.trans.first().map(|t| t.0).unwrap_or_else(|| cal::unix_from_civil(1900, 1, 1, 0, 0, 0));
    let after = z.trans.last().map(|t| t.0).unwrap_or(start);
    if let Footer::Rule(r) = &z.footer {
        if r.dst.is_some() {
            let y0 = cal::year_of_unix(after).max(1900);
            let mut years: Vec<i64> = vec![y0, y0 + 1, 2040, 2096, 2100, 2101, 2400, 2499];
            for _ in 0..rule_years {
                years.push(rng.range(y0, 2499));
            }
            for y in years {
                if y < y0 || y > 2499 {
                    continue;
                }
                let (s, e) = r.switches(y).unwrap();
                for inst in [s, e] {
                    v.push(inst - d);
                    v.push(inst);
                    v.push(inst + d);
                }
                // the turn of the year, in UTC and in both local times (a yearly rule evaluated for
                // the wrong year shows here and nowhere near a switch-over)
                let jan1 = cal::unix_from_civil(y + 1, 1, 1, 0, 0, 0);
                for k in -6..=6i64 {
                    v.push(jan1 + k * 4 * 3600 + k);
                }
                if let Some(dd) = &r.dst {
                    for off in [r.std_off as i64, dd.off as i64] {
                        v.push(jan1 - off - 1);
                        v.push(jan1 - off);
                        v.push(jan1 - off - 1800);
                    }
                }
                // 29 February / 1 March of leap years: where Jn and n rules differ
                if cal::is_leap(y) {
                    v.push(cal::unix_from_civil(y, 2, 29, 12, 0, 0));
                    v.push(cal::unix_from_civil(y, 3, 1, 12, 0, 0));
                }
            }
        }
    }
    for _ in 0..n_random {
        v.push(rng.range(start, MAX_CLOCK - 1));
    }
    // a few instants before the first transition: never judged, must not crash
    for _ in 0..3 {
        v.push(start - rng.range(1, 50 * 365 * 86400));
    }
    v.retain(|t| *t < MAX_CLOCK && *t > -4_000_000_000);
    v
}

fn render_offset(off: i32) -> String {
    let a = off.unsigned_abs();
    let (h, m, s) = (a / 3600, a % 3600 / 60, a % 60);
    let sign = if off < 0 { '-' } else { '+' };
    if s != 0 {
        format!("{}{:02}:{:02}:{:02}", sign, h, m, s)
    } else {
        format!("{}{:02}:{:02}", sign, h, m)
    }
}

struct Oracles<'a> {
    primary: (&'a [u8], &'a RefZone),
    upgraded: Option<(Vec<u8>, RefZone)>,
}

impl<'a> Oracles<'a> {
    fn for_bytes(&self, b: &[u8]) -> Option<&RefZone> {
        if b == self.primary.0 {
            return Some(self.primary.1);
        }
        if let Some((ub, uz)) = &self.upgraded {
            if b == &ub[..] {
                return Some(uz);
            }
        }
        None
    }
}

/// Runs one configuration. Returns the hash of its complete event log.
pub fn check_zone(
    case: &ZoneCase,
    z: &RefZone,
    instants: &[i64],
    nanos: &[u32],
    knobs: &Knobs,
    stats: &mut Option<&mut Stats>,
) -> Result<u64, Fail> {
    let mut log = fnv(&case.bytes);
    let judge_footer = z.premise_holds() && z.footer_consistent();
    let want = |zz: &RefZone, t: i64| -> Answer {
        let a = zz.offset_at(t);
        if let Some(last) = zz.trans.last() {
            // (at the last transition itself an inconsistent footer and the table disagree: the
            // file is outside the premises from there on)
            if t >= last.0 && !(zz.premise_holds() && zz.footer_consistent()) {
                return Answer::Unjudged("footer outside the property's premises");
            }
        } else if !zz.premise_holds() {
            return Answer::Unjudged("footer outside the property's premises");
        }
        a
    };
    let _ = judge_footer;
    // ---- direct entry: all instants (this is the only way to present instants before 1970) ----
    let b = case.bytes.clone();
    let ts = instants.to_vec();
    let out = guarded(move || astrolabe::verif::tz_offsets_at(&b, &ts));
    let direct: Vec<i32> = match out.result {
        Ok(Ok(v)) => v,
        Ok(Err(e)) => {
            return Err(Fail {
                invariant: "Z0-parse-error",
                t: instants.first().copied().unwrap_or(0),
                nanos: 0,
                path: "direct",
                observed: format!("the reader rejects the file: {}", e),
                expected: "a well-formed TZif file parses".into(),
                region: format!("parse:{}", match &z.footer {
                    Footer::Absent => "v1",
                    Footer::Empty => "empty-footer",
                    Footer::Rule(_) => "footer",
                }),
                panic: None,
                on_upgraded: false,
            })
        }
        Err(_) => {
            // find the instant that panics
            let mut found = None;
            for t in instants {
                let b = case.bytes.clone();
                let tt = *t;
                let o = guarded(move || astrolabe::verif::tz_offset_at(&b, tt));
                if let Err(p) = o.result {
                    found = Some((tt, p));
                    break;
                }
            }
            let (t, p) = found.unwrap_or((0, PanicInfo { msg: "panic in batch only".into(), file: "?".into(), line: 0 }));
            return Err(Fail {
                invariant: "Z0-panic",
                t,
                nanos: 0,
                path: "direct",
                observed: format!("lookup panicked: {} ({}:{})", p.msg, p.file, p.line),
                expected: "an offset".into(),
                region: region(z, t),
                panic: Some(p),
                on_upgraded: false,
            });
        }
    };
    for (k, t) in instants.iter().enumerate() {
        log = fnv_mix(log, direct[k] as u64);
        let reg = region(z, *t);
        match want(z, *t) {
            Answer::Offset(w) => {
                if let Some(s) = stats.as_deref_mut() {
                    s.inc("c18.lookups.judged");
                    s.inc(&format!("c18.region.{}", reg.split('+').next().unwrap().replace("@switch", "")));
                    if reg.contains("@switch") {
                        s.inc("c18.reach.at_rule_switch_pm1s");
                    }
                    if reg.contains("leap-year-after-feb") && reg.contains("footer-rule") {
                        s.inc("c18.reach.rule_in_leap_year_after_february");
                    }
                }
                if direct[k] != w {
                    return Err(Fail {
                        invariant: "Z1-offset",
                        t: *t,
                        nanos: 0,
                        path: "direct",
                        observed: format!("{} ({})", direct[k], render_offset(direct[k])),
                        expected: format!("{} ({}) at {}", w, render_offset(w), cal::fmt_unix(*t)),
                        region: reg,
                        panic: None,
                        on_upgraded: false,
                    });
                }
            }
            Answer::Unjudged(why) => {
                if let Some(s) = stats.as_deref_mut() {
                    s.inc("c18.unjudged.lookups");
                    s.inc(&format!("c18.unjudged.why.{}", why.replace(' ', "_")));
                }
            }
        }
    }
    // ---- the real path: /etc/localtime + wall clock -> Offset::Local ----
    let upgraded = match &knobs.upgrade {
        Some((_, ub)) => match tzref::parse_tzif(ub) {
            Ok(uz) => Some((ub.clone(), uz)),
            Err(_) => None,
        },
        None => None,
    };
    let oracles = Oracles { primary: (&case.bytes, z), upgraded };
    let fs = SimFs::install(Some(case.bytes.clone()));
    let clock = SimClock::install(Instant::new(0, 0));
    clock.set_read_cost(knobs.read_cost_ns);
    let r = real_path(case, instants, nanos, knobs, &oracles, &fs, &clock, &direct, stats, &mut log, &want);
    SimClock::uninstall();
    SimFs::uninstall();
    r.map(|_| log)
}

#[allow(clippy::too_many_arguments)]
fn real_path(
    case: &ZoneCase,
    instants: &[i64],
    nanos: &[u32],
    knobs: &Knobs,
    oracles: &Oracles,
    fs: &SimFs,
    clock: &SimClock,
    direct: &[i32],
    stats: &mut Option<&mut Stats>,
    log: &mut u64,
    want: &dyn Fn(&RefZone, i64) -> Answer,
) -> Result<(), Fail> {
    let mut n_local = 0usize;
    let mut on_second = false;
    for (k, t) in instants.iter().enumerate() {
        if *t < 0 {
            continue;
        }
        if let Some((at, ub)) = &knobs.upgrade {
            if *at == n_local {
                fs.apply(&WriterStep::RenameReplace { data: ub.clone() });
                on_second = true;
                if let Some(s) = stats.as_deref_mut() {
                    s.inc("c18.fault.atomic_upgrade.injected");
                }
            } else if n_local > *at && knobs.toggles.contains(&n_local) {
                on_second = !on_second;
                let data = if on_second { ub.clone() } else { case.bytes.clone() };
                fs.apply(&WriterStep::RenameReplace { data });
                if let Some(s) = stats.as_deref_mut() {
                    s.inc("c18.fault.zone_switched_back_and_forth.injected");
                }
            }
        }
        n_local += 1;
        let nn = nanos[k % nanos.len()];
        clock.set(Instant::new(*t as u64, nn));
        // what a call observed: (file content served, clock value served)
        // A call that read the file is judged against exactly the content it was served. A call
        // that did not read it (an implementation may keep the parsed zone) is judged against
        // every file installed so far: old or new, never anything else.
        let upgraded_installed = knobs.upgrade.as_ref().map(|(at, _)| n_local > *at).unwrap_or(false);
        let observe = |rb: usize, fb: usize| -> (Option<Vec<&RefZone>>, Instant) {
            let served_clock = if clock.reads_len() > rb { clock.read_at(clock.reads_len() - 1) } else { clock.now() };
            let zones = if fs.served_len() > fb {
                fs.served_at(fs.served_len() - 1).ok().and_then(|b| oracles.for_bytes(&b)).map(|z| vec![z])
            } else {
                let mut v = vec![oracles.primary.1];
                if upgraded_installed {
                    if let Some((_, uz)) = &oracles.upgraded {
                        v.push(uz);
                    }
                }
                Some(v)
            };
            (zones, served_clock)
        };
        let mk_fail = |inv: &'static str, what: &str, obs: String, exp: String, p: Option<PanicInfo>, zz: &RefZone, at: i64| Fail {
            invariant: inv,
            t: *t,
            nanos: nn,
            path: "local",
            observed: format!("{}: {}", what, obs),
            expected: exp,
            region: region(zz, at),
            panic: p,
            on_upgraded: !std::ptr::eq(zz, oracles.primary.1),
        };
        let (rb, fb) = (clock.reads_len(), fs.served_len());
        let out = guarded(|| Offset::Local.resolve());
        let (zones, sc) = observe(rb, fb);
        let zones = match zones {
            Some(z) => z,
            None => {
                return Err(mk_fail("HARNESS-served", "resolve()", "file content served matches no installed file".into(), "old or new file".into(), None, oracles.primary.1, *t))
            }
        };
        let zz = zones[zones.len() - 1];
        if let Some(s) = stats.as_deref_mut() {
            if oracles.upgraded.is_some() && !std::ptr::eq(zz, oracles.primary.1) {
                s.inc("c18.fault.atomic_upgrade.effective(lookups_on_new_file)");
            }
        }
        let got = match out.result {
            Ok(v) => v,
            Err(p) => {
                return Err(mk_fail("Z0-panic", "Offset::Local.resolve()", format!("panicked: {} ({}:{})", p.msg, p.file, p.line), "an offset".into(), Some(p), zz, *t))
            }
        };
        *log = fnv_mix(*log, got as u64);
        *log = fnv_mix(*log, sc.secs);
        let wants: Vec<Answer> = zones.iter().map(|z| want(z, sc.secs as i64)).collect();
        let all_judged = wants.iter().all(|a| matches!(a, Answer::Offset(_)));
        let any_match = wants.iter().any(|a| *a == Answer::Offset(got));
        if let (true, Answer::Offset(w)) = (all_judged, wants[wants.len() - 1]) {
            if let Some(s) = stats.as_deref_mut() {
                s.inc("c18.lookups.local_path_judged");
            }
            if !any_match {
                return Err(mk_fail(
                    "Z2-local-offset",
                    "Offset::Local.resolve()",
                    format!("{} ({})", got, render_offset(got)),
                    format!("{} ({}) for the clock value served, {}", w, render_offset(w), cal::fmt_unix(sc.secs as i64)),
                    None,
                    zz,
                    sc.secs as i64,
                ));
            }
            // both entries must agree when they saw the same file and instant
            if zones.len() == 1 && std::ptr::eq(zz, oracles.primary.1) && sc.secs as i64 == *t && got != direct[k] {
                return Err(mk_fail("Z3-paths-disagree", "resolve() vs direct entry", format!("{} vs {}", got, direct[k]), "equal".into(), None, zz, *t));
            }
        }
        if knobs.battery_every == 0 || n_local % knobs.battery_every as usize != 0 {
            continue;
        }
        // ---- DateTime::now_local(): the instant is read once, the offset on every getter ----
        let rb0 = clock.reads_len();
        let out = guarded(DateTime::now_local);
        let dt = match out.result {
            Ok(d) => d,
            Err(p) => return Err(mk_fail("Z0-panic", "DateTime::now_local()", format!("panicked: {}", p.msg), "a value".into(), Some(p), zz, *t)),
        };
        let r1 = if clock.reads_len() > rb0 { clock.read_at(rb0) } else { clock.now() };
        macro_rules! getter {
            ($r1:expr, $name:expr, $call:expr, $expect:expr) => {{
                let (rb, fb) = (clock.reads_len(), fs.served_len());
                let out = guarded(|| $call);
                let (zones, sc) = observe(rb, fb);
                let zones = match zones {
                    Some(z) => z,
                    None => return Err(mk_fail("HARNESS-served", $name, "file content served matches no installed file".into(), "".into(), None, oracles.primary.1, *t)),
                };
                let zz = zones[zones.len() - 1];
                let got = match out.result {
                    Ok(v) => v,
                    Err(p) => return Err(mk_fail("Z0-panic", $name, format!("panicked: {}", p.msg), "a value".into(), Some(p), zz, *t)),
                };
                let wants: Vec<Answer> = zones.iter().map(|z| want(z, sc.secs as i64)).collect();
                let all_judged = wants.iter().all(|a| matches!(a, Answer::Offset(_)));
                // how a value applies an offset of a day or more is outside every listed property
                // (`Offset` documents +-23:59:59); only the resolved offset itself is judged then
                let within_a_day = wants.iter().all(|a| matches!(a, Answer::Offset(o) if o.unsigned_abs() < 86_400));
                if !within_a_day {
                    if let Some(s) = stats.as_deref_mut() {
                        s.inc("c18.unjudged.getters_with_offset_of_a_day_or_more");
                    }
                }
                if let (true, true, Answer::Offset(off)) = (all_judged, within_a_day, wants[wants.len() - 1]) {
                    let local = $r1.secs as i64 + off as i64;
                    let exp = $expect(local, off);
                    let any_match = wants.iter().any(|a| match a {
                        Answer::Offset(o) => got == $expect($r1.secs as i64 + *o as i64, *o),
                        _ => false,
                    });
                    if !any_match {
                        return Err(mk_fail("Z4-local-fields", $name, format!("{:?}", got), format!("{:?} (instant {} shifted by {})", exp, cal::fmt_unix($r1.secs as i64), off), None, zz, sc.secs as i64));
                    }
                    if let Some(s) = stats.as_deref_mut() {
                        s.inc("c18.lookups.getters_judged");
                    }
                }
            }};
        }
        getter!(r1, "now_local().year()", dt.year(), |l: i64, _| cal::civil_from_unix(l).0 as i32);
        getter!(r1, "now_local().month()", dt.month(), |l: i64, _| cal::civil_from_unix(l).1);
        getter!(r1, "now_local().day()", dt.day(), |l: i64, _| cal::civil_from_unix(l).2);
        getter!(r1, "now_local().hour()", dt.hour(), |l: i64, _| cal::civil_from_unix(l).3);
        getter!(r1, "now_local().minute()", dt.minute(), |l: i64, _| cal::civil_from_unix(l).4);
        getter!(r1, "now_local().second()", dt.second(), |l: i64, _| cal::civil_from_unix(l).5);
        getter!(r1, "now_local().weekday()", dt.weekday() as u32, |l: i64, _| cal::weekday_from_days(l.div_euclid(86400)));
        getter!(
            r1,
            "now_local().format(\"yyyy-MM-dd HH:mm:ss xxxxx\")",
            dt.format("yyyy-MM-dd HH:mm:ss xxxxx"),
            |l: i64, off: i32| {
                let (y, mo, d, h, mi, s) = cal::civil_from_unix(l);
                format!("{:04}-{:02}-{:02} {:02}:{:02}:{:02} {}", y, mo, d, h, mi, s, render_offset(off))
            }
        );
        // Time::now_local()
        let rb1 = clock.reads_len();
        let out = guarded(Time::now_local);
        let tm = match out.result {
            Ok(d) => d,
            Err(p) => return Err(mk_fail("Z0-panic", "Time::now_local()", format!("panicked: {}", p.msg), "a value".into(), Some(p), zz, *t)),
        };
        let r1t = if clock.reads_len() > rb1 { clock.read_at(rb1) } else { clock.now() };
        // (Time::as_hms() is the raw UTC value by design; the getters apply the offset)
        getter!(r1t, "Time::now_local().hour()", tm.hour(), |l: i64, _| cal::civil_from_unix(l).3);
        getter!(r1t, "Time::now_local().minute()", tm.minute(), |l: i64, _| cal::civil_from_unix(l).4);
        getter!(r1t, "Time::now_local().second()", tm.second(), |l: i64, _| cal::civil_from_unix(l).5);
        let _ = case;
    }
    if let Some(s) = stats.as_deref_mut() {
        if knobs.read_cost_ns > 0 {
            s.inc("c18.fault.slow_clock_reads.runs");
        }
    }
    Ok(())
}

// ------------------------------------------------------------------------------------------------
// Configurations
// ------------------------------------------------------------------------------------------------

pub fn corpus_files() -> Vec<(String, std::path::PathBuf)> {
    let mut v = Vec::new();
    for kind in ["fat", "slim"] {
        let dir = crate::report::verif_dir().join("corpus").join(kind);
        if let Ok(rd) = std::fs::read_dir(&dir) {
            for e in rd.flatten() {
                v.push((format!("{}/{}", kind, e.file_name().to_string_lossy()), e.path()));
            }
        }
    }
    v.sort();
    v
}

pub fn system_files() -> Vec<(String, std::path::PathBuf)> {
    let mut v = Vec::new();
    let root = std::path::Path::new("/usr/share/zoneinfo");
    let mut stack = vec![root.to_path_buf()];
    while let Some(d) = stack.pop() {
        if let Ok(rd) = std::fs::read_dir(&d) {
            for e in rd.flatten() {
                let p = e.path();
                let name = p.strip_prefix(root).unwrap().to_string_lossy().to_string();
                if name.starts_with("right") {
                    continue; // leap-second time scale: outside the property
                }
                if p.is_dir() {
                    stack.push(p);
                } else {
                    v.push((format!("system/{}", name), p));
                }
            }
        }
    }
    v.sort();
    v
}

/// A zone that differs from `z` in exactly one component of its footer rule (a rule time, the
/// daylight offset, the standard offset, or one of the two dates), everything else identical.
pub fn sibling_of(z: &RefZone, rng: &mut Rng) -> Option<Vec<u8>> {
    // a sibling with the very same transition instants and the same answers, but another type
    // table: reversed order, or only the types that are referenced (fewer, other indices)
    if z.trans.len() >= 1 && z.types.len() >= 2 && rng.chance(1, 3) {
        let mut spec = spec_from_ref(z);
        let n = spec.types.len();
        let mut map: Vec<Option<u8>> = vec![None; n];
        let mut new_types = Vec::new();
        if rng.chance(1, 2) {
            for (new_i, old_i) in (0..n).rev().enumerate() {
                map[old_i] = Some(new_i as u8);
                new_types.push(spec.types[old_i]);
            }
        } else {
            // type 0 stays (it governs instants before the first transition), then referenced ones
            map[0] = Some(0);
            new_types.push(spec.types[0]);
            for (_, i) in &spec.trans {
                if map[*i as usize].is_none() {
                    map[*i as usize] = Some(new_types.len() as u8);
                    new_types.push(spec.types[*i as usize]);
                }
            }
        }
        if new_types != spec.types {
            for t in spec.trans.iter_mut() {
                t.1 = map[t.1 as usize].unwrap_or(0);
            }
            spec.types = new_types;
            let bytes = spec.build();
            if tzref::parse_tzif(&bytes).map(|zz| zz.footer_consistent()).unwrap_or(false) {
                return Some(bytes);
            }
        }
    }
    let rule = match &z.footer {
        Footer::Rule(r) => r.clone(),
        _ => return None,
    };
    let v3 = z.version >= 3;
    for _ in 0..20 {
        let mut r = rule.clone();
        match (&mut r.dst, rng.below(6)) {
            (Some(d), 0) => d.start_time += *rng.pick(&[-3600, 3600, 1800, 7200]),
            (Some(d), 1) => d.end_time += *rng.pick(&[-3600, 3600, 1800, 7200]),
            (Some(d), 2) => d.off += *rng.pick(&[-3600, 1800, 3600]),
            (Some(d), 3) => {
                if let tzref::RuleDate::M { w, .. } = &mut d.start {
                    *w = if *w == 5 { 4 } else { *w + 1 };
                } else if let tzref::RuleDate::J(n) = &mut d.start {
                    *n = (*n % 365) + 1;
                } else if let tzref::RuleDate::N(n) = &mut d.start {
                    *n = (*n + 1) % 365;
                }
            }
            (Some(d), 4) => {
                if let tzref::RuleDate::M { d: wd, .. } = &mut d.end {
                    *wd = (*wd + 1) % 7;
                } else if let tzref::RuleDate::J(n) = &mut d.end {
                    *n = (*n % 365) + 1;
                } else if let tzref::RuleDate::N(n) = &mut d.end {
                    *n = (*n + 1) % 365;
                }
            }
            _ => r.std_off += *rng.pick(&[-3600, 3600, 1800]),
        }
        if let Some(d) = &r.dst {
            let lim = if v3 { 167 * 3600 } else { 24 * 3600 };
            if d.start_time.abs() > lim || d.end_time.abs() > lim || (!v3 && (d.start_time < 0 || d.end_time < 0)) {
                continue;
            }
            if d.off.abs() > 24 * 3600 {
                continue;
            }
        }
        if r.std_off.abs() > 24 * 3600 || r == rule || !tzref::rule_premise(&r) {
            continue;
        }
        let mut spec = spec_from_ref(z);
        spec.footer = Some(tzgen::render_posix(rng, &r));
        let mut bytes = spec.build();
        let ok = tzref::parse_tzif(&bytes).map(|zz| zz.footer_consistent()).unwrap_or(false);
        if !ok {
            // the footer alone in charge: always consistent
            spec.trans.clear();
            bytes = spec.build();
            if tzref::parse_tzif(&bytes).is_err() {
                continue;
            }
        }
        return Some(bytes);
    }
    None
}

/// Byte range of the transition-time array of the data block a reader uses (the second block of
/// a version 2+ file, the only block of a version 1 file).
fn time_array_range(bytes: &[u8]) -> Option<(usize, usize)> {
    let cnt = |at: usize, k: usize| -> Option<usize> {
        let b = bytes.get(at + 20 + 4 * k..at + 24 + 4 * k)?;
        Some(u32::from_be_bytes([b[0], b[1], b[2], b[3]]) as usize)
    };
    // header counts in file order: isut, isstd, leap, time, type, char
    let (isut, isstd, leap, time, typ, chr) = (cnt(0, 0)?, cnt(0, 1)?, cnt(0, 2)?, cnt(0, 3)?, cnt(0, 4)?, cnt(0, 5)?);
    if *bytes.get(4)? < b'2' {
        return Some((44, 44 + time * 4));
    }
    let second = 44 + time * 5 + typ * 6 + chr + leap * 8 + isstd + isut;
    let time2 = cnt(second, 3)?;
    let lo = second + 44;
    let hi = lo + time2 * 8;
    if hi > bytes.len() {
        return None;
    }
    Some((lo, hi))
}

/// A well-formed file of the same length whose 32-bit big-endian words have the same sum (and,
/// for the second kind, the same XOR) as `bytes`, but which answers differently somewhere: what a
/// cache keyed by length and a cheap checksum cannot tell apart.
pub fn checksum_sibling(bytes: &[u8], rng: &mut Rng) -> Option<Vec<u8>> {
    let z = tzref::parse_tzif(bytes).ok()?;
    let words = bytes.len() / 4;
    if words < 30 {
        return None;
    }
    let probe: Vec<i64> = z.trans.iter().flat_map(|(t, _)| [*t, *t + 1]).chain([0, 1_700_000_000, 2_000_000_000, 4_000_000_000]).collect();
    let answers = |zz: &RefZone| -> Vec<Answer> { probe.iter().map(|t| zz.offset_at(*t)).collect() };
    let base_answers = answers(&z);
    // Only words lying wholly inside the transition-time array of the block the reader uses are
    // changed: every other byte (leap-second records, indicator arrays, abbreviations, type
    // records, the other block) stays as the well-formed original had it, so that a reader which
    // validates those parts strictly (RFC 8536 3.2) accepts the sibling exactly when it accepts
    // the original.
    let (lo, hi) = time_array_range(bytes)?;
    let allowed: Vec<usize> = (11..words).filter(|k| 4 * k >= lo && 4 * k + 4 <= hi).collect();
    if allowed.len() < 2 {
        return None;
    }
    for _ in 0..400 {
        let i = *rng.pick(&allowed);
        let j = *rng.pick(&allowed);
        if i == j {
            continue;
        }
        let mut c = bytes.to_vec();
        let rd = |c: &Vec<u8>, k: usize| u32::from_be_bytes([c[4 * k], c[4 * k + 1], c[4 * k + 2], c[4 * k + 3]]);
        if rng.chance(1, 2) {
            let d = *rng.pick(&[1u32, 60, 900, 1800, 3600, 7200, 86400]);
            let (a, b) = (rd(&c, i).wrapping_add(d), rd(&c, j).wrapping_sub(d));
            c[4 * i..4 * i + 4].copy_from_slice(&a.to_be_bytes());
            c[4 * j..4 * j + 4].copy_from_slice(&b.to_be_bytes());
        } else {
            let bit = 1u32 << rng.below(13);
            let (a, b) = (rd(&c, i) ^ bit, rd(&c, j) ^ bit);
            if a.wrapping_add(b) != rd(&c, i).wrapping_add(rd(&c, j)) {
                continue; // keep the additive sum as well
            }
            c[4 * i..4 * i + 4].copy_from_slice(&a.to_be_bytes());
            c[4 * j..4 * j + 4].copy_from_slice(&b.to_be_bytes());
        }
        if let Ok(zz) = tzref::parse_tzif(&c) {
            let sane = zz.trans.iter().all(|(t, _)| t.unsigned_abs() < 1 << 44);
            if sane && zz.footer_consistent() && zz.premise_holds() && answers(&zz) != base_answers {
                return Some(c);
            }
        }
    }
    None
}

/// A process lifetime: a monotonic sequence of instants (the way a long-running process asks for
/// local time), starting at a random point - often at a year boundary or next to a switch-over.
pub fn lifetime_walk(z: &RefZone, rng: &mut Rng) -> Vec<i64> {
    let lo = z.trans.first().map(|t| t.0).unwrap_or(0).max(0);
    let mut t = match rng.below(4) {
        0 => {
            let y = rng.range(cal::year_of_unix(lo).max(1970), 2498);
            cal::unix_from_civil(y, 12, 31, 0, 0, 0) + rng.range(-86400, 2 * 86400)
        }
        1 => match &z.footer {
            Footer::Rule(r) if r.dst.is_some() => {
                let y = rng.range(cal::year_of_unix(lo).max(1970), 2498);
                let (s, e) = r.switches(y).unwrap();
                (if rng.chance(1, 2) { s } else { e }) - rng.range(0, 3 * 86400)
            }
            _ => rng.range(lo, MAX_CLOCK - 1),
        },
        _ => rng.range(lo, MAX_CLOCK - 1),
    };
    let mut v = Vec::new();
    for _ in 0..rng.range(8, 40) {
        if t >= MAX_CLOCK || t < 0 {
            break;
        }
        v.push(t);
        t += match rng.below(7) {
            0 => 1,
            1 => rng.range(1, 120),
            2 => rng.range(60, 7200),
            3 => rng.range(3600, 3 * 86400),
            4 => rng.range(86400, 40 * 86400),
            5 => rng.range(30 * 86400, 200 * 86400),
            _ => rng.range(1, 86400),
        };
    }
    v
}

pub fn spec_from_ref(z: &RefZone) -> TzSpec {
    TzSpec {
        version: z.version,
        trans: z.trans.clone(),
        types: z.types.iter().map(|t| (t.utoff, t.isdst, 0)).collect(),
        chars: b"LMT\0".to_vec(),
        leaps: z.leaps.clone(),
        isstd: Vec::new(),
        isut: Vec::new(),
        footer: match &z.footer {
            Footer::Absent => None,
            _ => Some(z.footer_text.clone()),
        },
        v1_mode: 1,
    }
}

fn fails_same(bytes: &[u8], t: i64, nanos: u32, inv: &str, knobs: &Knobs) -> Option<Fail> {
    let z = tzref::parse_tzif(bytes).ok()?;
    let case = ZoneCase { label: "minimised".into(), source: "minimised", bytes: bytes.to_vec() };
    // the same wrong offset shows as Z1 through the direct entry and as Z2 through Offset::Local:
    // one class (a replay of the minimised file meets the direct entry first)
    let class = |i: &str| if i == "Z2-local-offset" { "Z1-offset".to_string() } else { i.to_string() };
    match check_zone(&case, &z, &[t], &[nanos], knobs, &mut None) {
        Err(f) if class(f.invariant) == class(inv) => Some(f),
        _ => None,
    }
}

/// Reduce to the one failing instant, then drop transitions while the same invariant keeps failing.
pub fn minimise(case: &ZoneCase, z: &RefZone, fail: &Fail) -> (Vec<u8>, Fail) {
    let knobs = Knobs { read_cost_ns: 0, battery_every: 1, upgrade: None, toggles: Vec::new() };
    let mut best_bytes = case.bytes.clone();
    let mut best = match fails_same(&best_bytes, fail.t, fail.nanos, fail.invariant, &knobs) {
        Some(f) => f,
        None => return (best_bytes, fail.clone()),
    };
    let mut spec = spec_from_ref(z);
    // rebuilt file must still fail the same way, otherwise keep the original bytes
    if let Some(f) = fails_same(&spec.build(), fail.t, fail.nanos, fail.invariant, &knobs) {
        best_bytes = spec.build();
        best = f;
    } else {
        return (best_bytes, best);
    }
    let mut i = 0;
    let mut attempts = 0;
    while i < spec.trans.len() && attempts < 400 {
        attempts += 1;
        let mut c = spec.clone();
        c.trans.remove(i);
        let b = c.build();
        let ok = tzref::parse_tzif(&b).map(|zz| zz.footer_consistent()).unwrap_or(false);
        if ok {
            if let Some(f) = fails_same(&b, fail.t, fail.nanos, fail.invariant, &knobs) {
                spec = c;
                best_bytes = b;
                best = f;
                continue;
            }
        }
        i += 1;
    }
    (best_bytes, best)
}

pub fn knobs_to_json(j: Json, knobs: &Knobs, nanos: &[u32]) -> Json {
    let j = j
        .set("read_cost_ns", Json::Int(knobs.read_cost_ns as i128))
        .set("battery_every", Json::Int(knobs.battery_every as i128))
        .set("nanos_cycle", Json::Arr(nanos.iter().map(|n| Json::Int(*n as i128)).collect()));
    match &knobs.upgrade {
        Some((at, b)) => j
            .set("upgrade_before_local_lookup", Json::u(*at))
            .set("upgrade_tzif_hex", Json::s(&hex(b)))
            .set("toggle_before_local_lookups", Json::Arr(knobs.toggles.iter().map(|t| Json::u(*t)).collect())),
        None => j,
    }
}

pub fn knobs_from_json(doc: &Json) -> (Knobs, Option<Vec<u32>>) {
    let upgrade = match (doc.get("upgrade_before_local_lookup").and_then(|v| v.int()), doc.get("upgrade_tzif_hex").and_then(|v| v.str())) {
        (Some(at), Some(h)) => unhex(h).ok().map(|b| (at as usize, b)),
        _ => None,
    };
    let nanos = doc.get("nanos_cycle").and_then(|v| v.arr()).map(|a| a.iter().filter_map(|x| x.int().map(|i| i as u32)).collect::<Vec<u32>>());
    (
        Knobs {
            read_cost_ns: doc.get("read_cost_ns").and_then(|v| v.int()).unwrap_or(0) as u64,
            battery_every: doc.get("battery_every").and_then(|v| v.int()).unwrap_or(1) as u32,
            upgrade,
            toggles: doc.get("toggle_before_local_lookups").and_then(|v| v.arr()).map(|a| a.iter().filter_map(|x| x.int().map(|i| i as usize)).collect()).unwrap_or_default(),
        },
        nanos.filter(|n| !n.is_empty()),
    )
}

#[allow(clippy::too_many_arguments)]
pub fn to_violation(seed: u64, run: u64, case: &ZoneCase, z: &RefZone, f: &Fail, instants: &[i64], knobs: &Knobs, nanos: &[u32]) -> Violation {
    // the complete history: the original file, the switches and every instant of the run
    let full = knobs_to_json(Json::obj(), knobs, nanos)
        .set("property", Json::s("C18"))
        .set("engine", Json::s("tzsim"))
        .set("invariant", Json::s(f.invariant))
        .set("seed", Json::Int(seed as i128))
        .set("run", Json::Int(run as i128))
        .set("zone", Json::s(&case.label))
        .set("tzif_hex", Json::s(&hex(&case.bytes)))
        .set("instants", Json::Arr(instants.iter().map(|t| Json::Int(*t as i128)).collect()))
        .set("observed", Json::s(&f.observed))
        .set("expected", Json::s(&f.expected));
    // a lookup answered from the upgraded file is minimised against that file alone
    let up_case;
    let up_zone;
    let (case, z) = match (&knobs.upgrade, f.on_upgraded) {
        (Some((_, ub)), true) => match tzref::parse_tzif(ub) {
            Ok(uz) => {
                up_case = ZoneCase { label: format!("{} (file installed by the atomic upgrade)", case.label), source: case.source, bytes: ub.clone() };
                up_zone = uz;
                (&up_case, &up_zone)
            }
            Err(_) => (case, z),
        },
        _ => (case, z),
    };

    let (bytes, mf) = if f.invariant.starts_with("Z0-parse") { (case.bytes.clone(), f.clone()) } else { minimise(case, z, f) };
    let key = match &mf.panic {
        Some(p) => format!("{}:{}", mf.invariant, p.key()),
        None => format!("{}:{}", mf.invariant, mf.region),
    };
    Violation {
        property: "C18",
        invariant: mf.invariant.to_string(),
        key,
        what: format!("{} [{}] t={} ({}) via {}: observed {} ; expected {}", case.label, mf.region, mf.t, cal::fmt_unix(mf.t), mf.path, mf.observed, mf.expected),
        run,
        replay: Json::obj()
            .set("property", Json::s("C18"))
            .set("engine", Json::s("tzsim"))
            .set("invariant", Json::s(mf.invariant))
            .set("seed", Json::Int(seed as i128))
            .set("run", Json::Int(run as i128))
            .set("zone", Json::s(&case.label))
            .set("tzif_hex", Json::s(&hex(&bytes)))
            .set("t", Json::Int(mf.t as i128))
            .set("t_utc", Json::s(&cal::fmt_unix(mf.t)))
            .set("nanos", Json::Int(mf.nanos as i128))
            .set("path", Json::s(mf.path))
            .set("region", Json::s(&mf.region))
            .set("observed", Json::s(&mf.observed))
            .set("expected", Json::s(&mf.expected))
            .set(
                "panic",
                match &mf.panic {
                    Some(p) => Json::obj().set("msg", Json::s(&p.msg)).set("at", Json::s(&format!("{}:{}", p.file, p.line))),
                    None => Json::Null,
                },
            ),
        replay_full: Some(full),
    }
}

pub struct Work {
    pub corpus: Vec<(String, std::path::PathBuf)>,
    pub system: Vec<(String, std::path::PathBuf)>,
    pub n_synth: u64,
    pub n_random: usize,
    pub rule_years: usize,
}

pub fn work(tier: &str) -> Work {
    let all = corpus_files();
    if tier == "quick" {
        // stratified: every 7th file of each kind, plus every file with a version-3 footer feature
        let mut corpus: Vec<(String, std::path::PathBuf)> = all.iter().enumerate().filter(|(i, _)| i % 7 == 0).map(|(_, f)| f.clone()).collect();
        for f in &all {
            if ["Dublin", "Casablanca", "Godthab", "Nuuk", "Scoresbysund", "Jerusalem", "Gaza", "Lord_Howe", "Chatham", "Troll", "Santiago", "Easter", "Asuncion"].iter().any(|n| f.0.contains(n)) && !corpus.contains(f) {
                corpus.push(f.clone());
            }
        }
        Work { corpus, system: Vec::new(), n_synth: 3_000, n_random: 60, rule_years: 6 }
    } else {
        Work { corpus: all, system: system_files(), n_synth: 1_000_000, n_random: 150, rule_years: 24 }
    }
}

pub fn load_case(w: &Work, seed: u64, idx: u64) -> Option<(ZoneCase, Rng)> {
    let nc = w.corpus.len() as u64;
    let ns = w.system.len() as u64;
    let mut rng = Rng::new(rng::run_seed(seed, "C18", idx));
    if idx < nc + ns {
        let (label, path, source) = if idx < nc {
            let f = &w.corpus[idx as usize];
            (f.0.clone(), f.1.clone(), "corpus")
        } else {
            let f = &w.system[(idx - nc) as usize];
            (f.0.clone(), f.1.clone(), "system")
        };
        let bytes = std::fs::read(&path).ok()?;
        if !bytes.starts_with(b"TZif") {
            return None;
        }
        return Some((ZoneCase { label, source, bytes }, rng));
    }
    let s = tzgen::synth(&mut rng);
    Some((ZoneCase { label: s.label, source: "synth", bytes: s.spec.build() }, rng))
}

pub struct RunPlan {
    pub case: ZoneCase,
    pub z: RefZone,
    pub instants: Vec<i64>,
    pub nanos: Vec<u32>,
    pub knobs: Knobs,
}

pub fn one_run(w: &Work, seed: u64, idx: u64, stats: &mut Stats) -> Option<u64> {
    let plan = plan_run(w, seed, idx, stats)?;
    execute_plan(seed, idx, plan, stats)
}

/// Everything a run will do, drawn from (seed, run index) alone.
pub fn plan_run(w: &Work, seed: u64, idx: u64, stats: &mut Stats) -> Option<RunPlan> {
    let (case, mut rng) = load_case(w, seed, idx)?;
    let z = match tzref::parse_tzif(&case.bytes) {
        Ok(z) => z,
        Err(e) => {
            if case.source == "synth" || case.source == "corpus" {
                eprintln!("HARNESS-ERROR: reference reader rejects {}: {}", case.label, e);
                std::process::exit(2);
            }
            stats.inc("c18.unjudged.system_files_reference_cannot_read");
            return None;
        }
    };
    stats.inc("c18.configurations");
    stats.inc(&format!("c18.source.{}", case.source));
    let mut instants = instants_for(&z, &mut rng, w.n_random, w.rule_years);
    if rng.chance(1, 100) {
        // a daemon that asks for local time every few seconds to minutes, a thousand times and more
        let lo = z.trans.first().map(|t| t.0).unwrap_or(0).max(0);
        let mut t = rng.range(lo, MAX_CLOCK - 400 * 86400);
        let step_max = *rng.pick(&[5i64, 60, 600, 7200]);
        let n = rng.range(700, 3000);
        let mut walk = Vec::with_capacity(n as usize);
        for _ in 0..n {
            walk.push(t);
            t += rng.range(1, step_max);
        }
        stats.inc("c18.reach.marathon_walks");
        instants.extend(walk);
    }
    if rng.chance(1, 3) {
        // a process lifetime with a monotonic clock, before or after the probe list
        let walk = lifetime_walk(&z, &mut rng);
        stats.inc("c18.reach.monotonic_lifetime_walks");
        if rng.chance(1, 2) {
            let mut v = walk;
            v.extend(instants);
            instants = v;
        } else {
            instants.extend(walk);
        }
    }
    let nanos: Vec<u32> = (0..7).map(|i| if i == 0 { 0 } else if i == 1 { 999_999_999 } else { rng.below(1_000_000_000) as u32 }).collect();
    let slow = rng.chance(1, 4);
    let mut toggles: Vec<usize> = Vec::new();
    let upgrade = if rng.chance(1, 5) {
        // the tzdata package (or an administrator) replaces the file by rename while the process
        // keeps looking up: an unrelated zone, or a sibling that differs in one footer component
        let other = match rng.below(5) {
            0 if !w.corpus.is_empty() => std::fs::read(&w.corpus[rng.usize(w.corpus.len())].1).ok(),
            1 => Some(tzgen::synth(&mut rng).spec.build()),
            2 => checksum_sibling(&case.bytes, &mut rng).or_else(|| sibling_of(&z, &mut rng)).or_else(|| Some(tzgen::synth(&mut rng).spec.build())),
            _ => sibling_of(&z, &mut rng).or_else(|| Some(tzgen::synth(&mut rng).spec.build())),
        };
        let n_local = instants.iter().filter(|t| **t >= 0).count().max(1);
        let at = rng.usize(n_local);
        if rng.chance(1, 2) {
            for _ in 0..rng.range(1, 6) {
                toggles.push(at + 1 + rng.usize((n_local - at).max(1)));
            }
            toggles.sort_unstable();
            toggles.dedup();
        }
        other.map(|b| (at, b))
    } else {
        None
    };
    let knobs = Knobs {
        read_cost_ns: if slow { rng.range(1, 2_500_000_000) as u64 } else { 0 },
        battery_every: if case.source == "synth" { 16 } else { 8 },
        upgrade,
        toggles,
    };
    Some(RunPlan { case, z, instants, nanos, knobs })
}

fn execute_plan(seed: u64, idx: u64, plan: RunPlan, stats: &mut Stats) -> Option<u64> {
    let RunPlan { case, z, instants, nanos, knobs } = plan;
    let class = (z.version as u64)
        | (match z.trans.len() {
            0 => 0,
            1 => 1,
            2..=8 => 2,
            9..=64 => 3,
            _ => 4,
        }) << 4
        | (match &z.footer {
            Footer::Absent => 0u64,
            Footer::Empty => 1,
            Footer::Rule(r) => match &r.dst {
                None => 2,
                Some(d) => {
                    let k = |x: &tzref::RuleDate| match x {
                        tzref::RuleDate::J(_) => 0u64,
                        tzref::RuleDate::N(_) => 1,
                        tzref::RuleDate::M { .. } => 2,
                    };
                    let hemi = (r.switches(2023).map(|(s, e)| s < e).unwrap_or(true)) as u64;
                    let neg_time = (d.start_time < 0 || d.end_time < 0) as u64;
                    let big_time = (d.start_time > 86400 || d.end_time > 86400) as u64;
                    3 + k(&d.start) + 3 * k(&d.end) + 9 * hemi + 18 * neg_time + 36 * big_time
                }
            },
        }) << 8
        | (!z.leaps.is_empty() as u64) << 20;
    stats.note("c18.config_classes", class);
    stats.note("c18.distinct_files", fnv(&case.bytes));
    stats.add("c18.lookups.total", instants.len() as u64);
    if let (Some(a), Some(b)) = (instants.iter().min(), instants.iter().max()) {
        stats.add("c18.sim_span_seconds", (b - a) as u64);
    }
    crate::report::inflight_note(|| {
        Json::obj()
            .set("property", Json::s("C18"))
            .set("engine", Json::s("tzsim"))
            .set("invariant", Json::s("process-death"))
            .set("seed", Json::Int(seed as i128))
            .set("run", Json::Int(idx as i128))
            .set("zone", Json::s(&case.label))
            .set("tzif_hex", Json::s(&hex(&case.bytes)))
            .set("instants", Json::Arr(instants.iter().map(|t| Json::Int(*t as i128)).collect()))
            .set("observed", Json::s("the process died while looking up in this zone"))
    });
    match check_zone(&case, &z, &instants, &nanos, &knobs, &mut Some(stats)) {
        Ok(h) => {
            if idx % 211 == 0 && idx < 211 * 4 {
                stats.samples.push((
                    idx,
                    Json::obj()
                        .set("zone", Json::s(&case.label))
                        .set("bytes", Json::u(case.bytes.len()))
                        .set("version", Json::u(z.version as usize))
                        .set("transitions", Json::u(z.trans.len()))
                        .set("footer", Json::s(&z.footer_text))
                        .set("lookups", Json::u(instants.len()))
                        .set("first_lookups", Json::Arr(instants.iter().take(6).map(|t| Json::s(&format!("{} -> {:?}", cal::fmt_unix(*t), z.offset_at(*t)))).collect()))
                        .set("slow_clock_read_cost_ns", Json::Int(knobs.read_cost_ns as i128))
                        .set("atomic_upgrade", Json::Bool(knobs.upgrade.is_some())),
                ));
            }
            Some(h)
        }
        Err(f) => {
            if f.invariant.starts_with("HARNESS") {
                eprintln!("HARNESS-ERROR: {} {}", f.invariant, f.observed);
                std::process::exit(2);
            }
            let h = fnv(format!("{:?}", (&f.invariant, f.t, &f.observed)).as_bytes());
            stats.violations.push(to_violation(seed, idx, &case, &z, &f, &instants, &knobs, &nanos));
            Some(h)
        }
    }
}

pub fn check(tier: &str, seed: u64) -> i32 {
    let t0 = std::time::Instant::now();
    let mut w = work(tier);
    if let Some(n) = std::env::var("VERIF_C18_SYNTH").ok().and_then(|v| v.parse().ok()) {
        w.n_synth = n;
    }
    let total = w.corpus.len() as u64 + w.system.len() as u64 + w.n_synth;
    let wr = &w;
    let mut stats = crate::runner::run_parallel(
        total,
        |idx, stats| {
            one_run(wr, seed, idx, stats);
        },
        |idx| {
            let doc = match plan_run(wr, seed, idx, &mut Stats::default()) {
                Some(p) => knobs_to_json(Json::obj(), &p.knobs, &p.nanos)
                    .set("property", Json::s("C18"))
                    .set("engine", Json::s("tzsim"))
                    .set("invariant", Json::s("Z0-hang"))
                    .set("seed", Json::Int(seed as i128))
                    .set("run", Json::Int(idx as i128))
                    .set("zone", Json::s(&p.case.label))
                    .set("tzif_hex", Json::s(&hex(&p.case.bytes)))
                    .set("instants", Json::Arr(p.instants.iter().map(|t| Json::Int(*t as i128)).collect()))
                    .set("observed", Json::s("a call into astrolabe did not return within the watchdog limit"))
                    .set("tier", Json::s(tier)),
                None => Json::obj(),
            };
            crate::cronsim::hang_report("C18", seed, idx, doc);
        },
    );
    let wall = t0.elapsed().as_secs_f64();
    let mut violations = std::mem::take(&mut stats.violations);
    let outcome = crate::report::report_violations("C18", seed, &mut violations);
    let lookups = stats.get("c18.lookups.total");
    let coverage = Json::obj()
        .set("evaluations", Json::Int(stats.get("c18.configurations") as i128))
        .set("distinct_nontrivial", Json::Int(stats.distinct("c18.distinct_files") as i128))
        .set("rule", Json::s("one evaluation = one simulated host lifetime: a well-formed TZif file installed as /etc/localtime (vendored tzdata 2025b fat and slim builds, the system zoneinfo tree in thorough, seeded synthesized v1/v2/v3 files satisfying the property's premises) and a schedule of lookups (each transition -1/0/+1 s, rule switch instants -1/0/+1 s in sampled and leap years, 29 Feb / 1 Mar of leap years, random instants up to 2500); instants >= 0 go through the simulated clock and file into Offset::Local.resolve() / DateTime::now_local() / Time::now_local(), all instants through the direct TZif entry; every answer is compared with the reference evaluator. distinct_nontrivial = distinct file contents examined (each with >= 1 judged lookup)"))
        .set("samples", Json::Arr(stats.samples.iter().map(|(_, j)| j.clone()).collect()))
        .set("lookups_total", Json::Int(lookups as i128))
        .set("lookups", stats.counters_json("c18.lookups."))
        .set("lookups_by_region", stats.counters_json("c18.region."))
        .set("sources", stats.counters_json("c18.source."))
        .set("distinct_configuration_classes", Json::Int(stats.distinct("c18.config_classes") as i128))
        .set("configuration_class_measure", Json::s("(version, transition-table size class, footer kind: absent/empty/fixed/rule with date-form pair J|n|M x J|n|M, hemisphere, negative or >24h rule times, leap-second records)"))
        .set("faults", stats.counters_json("c18.fault."))
        .set("reach", stats.counters_json("c18.reach."))
        .set("unjudged", stats.counters_json("c18.unjudged."))
        .set("reach_probes_at_zero", crate::report::probes_at_zero(&stats, &["c18.reach.at_rule_switch_pm1s","c18.reach.rule_in_leap_year_after_february","c18.reach.monotonic_lifetime_walks","c18.reach.marathon_walks","c18.fault.atomic_upgrade.injected","c18.fault.atomic_upgrade.effective(lookups_on_new_file)","c18.fault.zone_switched_back_and_forth.injected","c18.fault.slow_clock_reads.runs","c18.region.at-transition","c18.lookups.getters_judged"]))
        .set("simulated_span_seconds_sum", Json::Int(stats.get("c18.sim_span_seconds") as i128))
        .set("configurations_per_hour", Json::Int((stats.get("c18.configurations") as f64 / wall.max(1e-9) * 3600.0) as i128))
        .set("real_components", Json::s("offset.rs resolve (file read, parse, clock read, lookup), local/** (header, data block, cursor, footer parser, rule evaluation), datetime.rs/time.rs now_local + getters + format, util/**"))
        .set("stubbed_components", Json::s("SystemTime::now() and fs::read(\"/etc/localtime\") only"))
        .set("exhaustive", Json::Bool(false))
        .set("known_findings_matched", Json::u(outcome.known))
        .set("threads", Json::u(crate::runner::threads()));
    crate::report::write_evidence(
        "C18",
        tier,
        seed,
        "exploration",
        coverage,
        &[
            "reference RFC 8536 reader and POSIX-TZ evaluator (own code, own calendar), cross-validated against CPython zoneinfo by ./check selftest xval",
            "instants before the first transition, after the last transition of a file with an empty footer, within 60 s of a change in files with leap-second records, and footers outside the premises are executed but not judged",
            "feature `verif` only re-routes SystemTime::now() and fs::read",
        ],
        wall,
        outcome.reported,
    );
    println!(
        "C18 {}: {} configurations ({} distinct files), {} lookups ({} judged), {:.1}s, violations={}",
        tier,
        stats.get("c18.configurations"),
        stats.distinct("c18.distinct_files"),
        lookups,
        stats.get("c18.lookups.judged"),
        wall,
        outcome.reported
    );
    outcome.exit_code
}

pub fn replay(doc: &Json) -> i32 {
    let bytes = match doc.get("tzif_hex").and_then(|v| v.str()).ok_or("no tzif_hex".to_string()).and_then(unhex) {
        Ok(b) => b,
        Err(e) => {
            eprintln!("HARNESS-ERROR: bad replay file: {}", e);
            return 2;
        }
    };
    let z = match tzref::parse_tzif(&bytes) {
        Ok(z) => z,
        Err(e) => {
            eprintln!("HARNESS-ERROR: reference reader rejects the replay file's zone: {}", e);
            return 2;
        }
    };
    let inv = doc.get("invariant").and_then(|v| v.str()).unwrap_or("").to_string();
    let want_obs = doc.get("observed").and_then(|v| v.str()).unwrap_or("").to_string();
    let case = ZoneCase { label: doc.get("zone").and_then(|v| v.str()).unwrap_or("replay").to_string(), source: "replay", bytes };
    let listed: Option<Vec<i64>> = doc.get("instants").and_then(|v| v.arr()).map(|a| a.iter().filter_map(|x| x.int().map(|i| i as i64)).collect());
    let (instants, nanos) = match (doc.get("t").and_then(|v| v.int()), listed) {
        (Some(t), _) => (vec![t as i64], vec![doc.get("nanos").and_then(|v| v.int()).unwrap_or(0) as u32]),
        (None, Some(l)) if !l.is_empty() => (l, vec![0]),
        _ => {
            let mut rng = Rng::new(1);
            (instants_for(&z, &mut rng, 200, 24), vec![0])
        }
    };
    let (knobs, nanos_cycle) = knobs_from_json(doc);
    let nanos = nanos_cycle.unwrap_or(nanos);
    match check_zone(&case, &z, &instants, &nanos, &knobs, &mut None) {
        Ok(_) => {
            println!("replay: all lookups agree with the reference");
            0
        }
        Err(f) => {
            println!("replay: [{}] {} t={} via {}: observed {} ; expected {}", f.invariant, f.region, f.t, f.path, f.observed, f.expected);
            if f.invariant == inv && f.observed == want_obs {
                println!("replay: reproduced exactly");
            } else {
                println!("replay: a violation occurs but differs from the recorded one ([{}] {})", inv, want_obs);
            }
            1
        }
    }
}

/// Writes files and the reference's answers for cross-validation against CPython's zoneinfo.
pub fn xval_dump(dir: &std::path::Path, seed: u64, n_synth: u64) -> u64 {
    let _ = std::fs::create_dir_all(dir);
    let mut w = work("thorough");
    w.system.clear();
    w.n_synth = n_synth;
    let total = w.corpus.len() as u64 + n_synth;
    let mut n = 0;
    for idx in 0..total {
        let (case, mut rng) = match load_case(&w, seed, idx) {
            Some(c) => c,
            None => continue,
        };
        let z = match tzref::parse_tzif(&case.bytes) {
            Ok(z) => z,
            Err(_) => continue,
        };
        if !z.leaps.is_empty() {
            continue; // zoneinfo and the reference both ignore leap records; nothing to compare at +-60 s
        }
        if z.trans.is_empty() && !matches!(&z.footer, Footer::Rule(_)) && z.types.len() > 1 {
            // RFC 8536: time type 0 applies. CPython picks the first non-DST type instead; no second
            // opinion available for this corner, so it is left out of the cross-validation.
            continue;
        }
        let instants = instants_for(&z, &mut rng, 120, 12);
        let judged_footer = z.premise_holds() && z.footer_consistent();
        let answers: Vec<Json> = instants
            .iter()
            .map(|t| {
                let after_last = z.trans.last().map(|l| *t >= l.0).unwrap_or(true);
                if after_last && !judged_footer {
                    return Json::Null;
                }
                match z.offset_at(*t) {
                    Answer::Offset(o) => Json::Int(o as i128),
                    Answer::Unjudged(_) => Json::Null,
                }
            })
            .collect();
        let by_footer: Vec<Json> = instants
            .iter()
            .map(|t| Json::Bool(matches!(&z.footer, Footer::Rule(_)) && z.trans.last().map(|l| *t > l.0).unwrap_or(true)))
            .collect();
        let jn = match &z.footer {
            Footer::Rule(r) => match &r.dst {
                Some(d) => !matches!(d.start, tzref::RuleDate::M { .. }) || !matches!(d.end, tzref::RuleDate::M { .. }),
                None => false,
            },
            _ => false,
        };
        let doc = Json::obj()
            .set("label", Json::s(&case.label))
            .set("footer", Json::s(&z.footer_text))
            .set("footer_uses_J_or_n", Json::Bool(jn))
            .set("by_footer", Json::Arr(by_footer))
            .set("instants", Json::Arr(instants.iter().map(|t| Json::Int(*t as i128)).collect()))
            .set("answers", Json::Arr(answers));
        let _ = std::fs::write(dir.join(format!("{:06}.tzif", idx)), &case.bytes);
        let _ = std::fs::write(dir.join(format!("{:06}.json", idx)), doc.to_string());
        n += 1;
    }
    n
}
