//! TZif writer and seeded synthesis of well-formed files (versions 1-3) that satisfy the premises
//! of C18: strictly increasing transitions, valid indices, footer consistent with the last
//! transition, yearly switch-overs more than a week apart and more than a week from 1 January.

use crate::cal;
use crate::rng::Rng;
use crate::tzref::{self, Dst, PosixTz, RuleDate};

#[derive(Clone, Debug, PartialEq)]
pub struct TzSpec {
    pub version: u8,
    pub trans: Vec<(i64, u8)>,
    pub types: Vec<(i32, bool, u8)>,
    pub chars: Vec<u8>,
    pub leaps: Vec<(i64, i32)>,
    pub isstd: Vec<u8>,
    pub isut: Vec<u8>,
    /// `None` for version 1; `Some("")` is the empty footer.
    pub footer: Option<String>,
    /// 0 = 32-bit projection of the same data, 1 = minimal (one type), 2 = all counts zero.
    pub v1_mode: u8,
}

fn put_header(out: &mut Vec<u8>, version: u8, isut: usize, isstd: usize, leap: usize, time: usize, typ: usize, chr: usize) {
    out.extend_from_slice(b"TZif");
    out.push(match version {
        1 => 0,
        2 => b'2',
        _ => b'3',
    });
    out.extend_from_slice(&[0u8; 15]);
    for v in [isut, isstd, leap, time, typ, chr] {
        out.extend_from_slice(&(v as u32).to_be_bytes());
    }
}

impl TzSpec {
    fn block(&self, out: &mut Vec<u8>, wide: bool, version: u8) {
        let trans: Vec<(i64, u8)> = if wide {
            self.trans.clone()
        } else {
            self.trans.iter().filter(|(t, _)| *t >= i32::MIN as i64 && *t <= i32::MAX as i64).cloned().collect()
        };
        let leaps: Vec<(i64, i32)> = if wide {
            self.leaps.clone()
        } else {
            self.leaps.iter().filter(|(t, _)| *t >= i32::MIN as i64 && *t <= i32::MAX as i64).cloned().collect()
        };
        put_header(out, version, self.isut.len(), self.isstd.len(), leaps.len(), trans.len(), self.types.len(), self.chars.len());
        for (t, _) in &trans {
            if wide {
                out.extend_from_slice(&t.to_be_bytes());
            } else {
                out.extend_from_slice(&(*t as i32).to_be_bytes());
            }
        }
        for (_, i) in &trans {
            out.push(*i);
        }
        for (off, dst, ab) in &self.types {
            out.extend_from_slice(&off.to_be_bytes());
            out.push(*dst as u8);
            out.push(*ab);
        }
        out.extend_from_slice(&self.chars);
        for (t, c) in &leaps {
            if wide {
                out.extend_from_slice(&t.to_be_bytes());
            } else {
                out.extend_from_slice(&(*t as i32).to_be_bytes());
            }
            out.extend_from_slice(&c.to_be_bytes());
        }
        out.extend_from_slice(&self.isstd);
        out.extend_from_slice(&self.isut);
    }

    pub fn build(&self) -> Vec<u8> {
        let mut out = Vec::new();
        if self.version == 1 {
            self.block(&mut out, false, 1);
            return out;
        }
        match self.v1_mode {
            0 => self.block(&mut out, false, self.version),
            1 => {
                put_header(&mut out, self.version, 0, 0, 0, 0, 1, 1);
                out.extend_from_slice(&[0, 0, 0, 0, 0, 0]);
                out.push(0);
            }
            _ => put_header(&mut out, self.version, 0, 0, 0, 0, 0, 0),
        }
        self.block(&mut out, true, self.version);
        out.push(b'\n');
        if let Some(f) = &self.footer {
            out.extend_from_slice(f.as_bytes());
        }
        out.push(b'\n');
        out
    }
}

fn render_hms(secs: i32, force_sign: bool) -> String {
    let sign = if secs < 0 { "-" } else if force_sign { "+" } else { "" };
    let a = secs.unsigned_abs();
    let (h, m, s) = (a / 3600, a % 3600 / 60, a % 60);
    if s != 0 {
        format!("{}{}:{:02}:{:02}", sign, h, m, s)
    } else if m != 0 {
        format!("{}{}:{:02}", sign, h, m)
    } else {
        format!("{}{}", sign, h)
    }
}

fn render_name(rng: &mut Rng, utoff: i32, base: &str) -> String {
    if rng.chance(1, 8) {
        // the quoted form allows any mix of letters, digits, '+' and '-' (at least three characters)
        return (*rng.pick(&["<UTC+3>", "<GMT-5>", "<A1B>", "<+03a>", "<x-y+z>", "<UTC>", "<-0330WET>", "<ABCDEFGHIJ+12>", "<123>", "<+-+>"])).to_string();
    }
    if rng.chance(1, 8) {
        // unquoted: three or more letters, any case
        return (*rng.pick(&["abc", "WEST", "Zzz", "LongerName", "eet"])).to_string();
    }
    if rng.chance(1, 3) {
        // numeric designation as IANA writes it: <+0330>
        let a = utoff.unsigned_abs();
        let s = if utoff < 0 { '-' } else { '+' };
        if a % 3600 == 0 {
            format!("<{}{:02}>", s, a / 3600)
        } else {
            format!("<{}{:02}{:02}>", s, a / 3600, a % 3600 / 60)
        }
    } else {
        base.to_string()
    }
}

fn render_date(d: &RuleDate) -> String {
    match d {
        RuleDate::J(n) => format!("J{}", n),
        RuleDate::N(n) => format!("{}", n),
        RuleDate::M { m, w, d } => format!("M{}.{}.{}", m, w, d),
    }
}

pub fn render_posix(rng: &mut Rng, tz: &PosixTz) -> String {
    let mut s = render_name(rng, tz.std_off, "STD");
    s.push_str(&render_hms(-tz.std_off, false));
    if let Some(d) = &tz.dst {
        s.push_str(&render_name(rng, d.off, "DST"));
        if d.off != tz.std_off + 3600 || rng.chance(1, 4) {
            s.push_str(&render_hms(-d.off, false));
        }
        s.push(',');
        s.push_str(&render_date(&d.start));
        if d.start_time != 7200 || rng.chance(1, 5) {
            s.push('/');
            s.push_str(&render_hms(d.start_time, false));
        }
        s.push(',');
        s.push_str(&render_date(&d.end));
        if d.end_time != 7200 || rng.chance(1, 5) {
            s.push('/');
            s.push_str(&render_hms(d.end_time, false));
        }
    }
    s
}

fn gen_offset(rng: &mut Rng) -> i32 {
    if rng.chance(1, 25) {
        // RFC 8536 allows -25 h .. +26 h for local time types
        return rng.range(-89_999, 93_599) as i32;
    }
    gen_offset_posix(rng)
}

/// Offsets a POSIX-TZ string can express together with a daylight offset (|hours| <= 24).
fn gen_offset_posix(rng: &mut Rng) -> i32 {
    match rng.below(6) {
        0 => rng.range(-15, 15) as i32 * 3600,
        1 => rng.range(-15 * 4, 15 * 4) as i32 * 900,
        2 => rng.range(-15 * 3600, 15 * 3600) as i32, // LMT-like, whole seconds
        3 => 0,
        _ => rng.range(-12, 14) as i32 * 3600,
    }
}

fn gen_rule_date(rng: &mut Rng, month_lo: u32, month_hi: u32) -> RuleDate {
    // the days around 29 February are where the Jn and n forms differ from each other and
    // between leap and common years: aim a share of the rules right at them
    if month_lo <= 3 && rng.chance(1, 6) {
        return match rng.below(6) {
            0 => RuleDate::J(59),
            1 => RuleDate::J(60),
            2 => RuleDate::J(61),
            3 => RuleDate::N(58),
            4 => RuleDate::N(59),
            _ => RuleDate::N(60),
        };
    }
    match rng.below(5) {
        0 => {
            // Jn inside the month window
            let m = rng.range(month_lo as i64, month_hi as i64) as u32;
            let d = rng.range(1, cal::days_in_month(2023, m) as i64) as u32;
            let doy = (cal::days_from_civil(2023, m, d) - cal::days_from_civil(2023, 1, 1)) as u32 + 1;
            RuleDate::J(doy)
        }
        1 => {
            let m = rng.range(month_lo as i64, month_hi as i64) as u32;
            let d = rng.range(1, cal::days_in_month(2023, m) as i64) as u32;
            let doy0 = (cal::days_from_civil(2023, m, d) - cal::days_from_civil(2023, 1, 1)) as u32;
            RuleDate::N(doy0)
        }
        _ => RuleDate::M {
            m: rng.range(month_lo as i64, month_hi as i64) as u32,
            w: rng.range(1, 5) as u32,
            d: rng.range(0, 6) as u32,
        },
    }
}

fn gen_rule_time(rng: &mut Rng, v3: bool) -> i32 {
    match rng.below(6) {
        0 | 1 => 7200,
        2 => rng.range(0, 24) as i32 * 3600,
        3 => rng.range(0, 24 * 3600) as i32 / 60 * 60,
        4 if v3 => rng.range(-167, 167) as i32 * 3600,
        5 if v3 => rng.range(-167 * 3600, 167 * 3600) as i32,
        _ => rng.range(0, 86400) as i32,
    }
}

/// A POSIX-TZ rule of IANA shape that satisfies the premise.
pub fn gen_posix(rng: &mut Rng, v3: bool) -> PosixTz {
    let std_off = gen_offset_posix(rng);
    if rng.chance(1, 3) {
        return PosixTz { std_off, dst: None };
    }
    for _ in 0..200 {
        let save = match rng.below(6) {
            0 => 1800,
            1 => 7200,
            2 => -3600, // negative DST (Europe/Dublin style)
            _ => 3600,
        };
        let north = rng.chance(1, 2);
        let (a, b) = if north {
            (gen_rule_date(rng, 2, 6), gen_rule_date(rng, 8, 12))
        } else {
            (gen_rule_date(rng, 8, 12), gen_rule_date(rng, 1, 6))
        };
        let tz = PosixTz {
            std_off,
            dst: Some(Dst {
                off: std_off + save,
                start: a,
                start_time: gen_rule_time(rng, v3),
                end: b,
                end_time: gen_rule_time(rng, v3),
            }),
        };
        if tzref::rule_premise(&tz) {
            return tz;
        }
    }
    PosixTz { std_off, dst: None }
}

pub struct Synth {
    pub spec: TzSpec,
    pub label: String,
}

/// One well-formed synthesized configuration.
pub fn synth(rng: &mut Rng) -> Synth {
    let version = match rng.weighted(&[2, 4, 4]) {
        0 => 1,
        1 => 2,
        _ => 3,
    };
    let with_leaps = rng.chance(1, 10);
    let n_trans = match rng.below(50) {
        0 => rng.range(250, 1500) as usize, // larger than any real zone's table
        1..=9 => 0,
        10..=19 => 1,
        20..=29 => rng.range(2, 6) as usize,
        _ => rng.range(2, 40) as usize,
    };
    // transition times strictly increasing between 1900 and 2037 (v1: inside the 32-bit range)
    let lo = if version == 1 { -2_147_483_648i64 } else { cal::unix_from_civil(1900, 1, 1, 0, 0, 0) };
    let hi = cal::unix_from_civil(2037, 12, 31, 0, 0, 0);
    let mut times: Vec<i64> = Vec::new();
    if n_trans > 0 {
        let mut set = std::collections::BTreeSet::new();
        let clustered = rng.chance(1, 3);
        let center = rng.range(lo + 86400 * 400, hi - 86400 * 400);
        while set.len() < n_trans {
            let t = if clustered {
                center + rng.range(-86400 * 300, 86400 * 300)
            } else {
                rng.range(lo, hi)
            };
            // well away from each other when leap seconds are present
            set.insert(if with_leaps { t / 7200 * 7200 } else { t });
        }
        times = set.into_iter().collect();
    }
    // one file in thirty has a large type table (type indices above 127 included)
    let n_types = if rng.chance(1, 30) { rng.range(100, 254) as usize } else { rng.range(1, 8) as usize };
    let mut types: Vec<(i32, bool, u8)> = (0..n_types).map(|_| (gen_offset(rng), rng.chance(1, 3), 0u8)).collect();
    let footer_kind = if version == 1 { 0 } else { rng.weighted(&[0, 1, 3, 6]) };
    // 1 empty, 2 fixed, 3 rule
    let posix: Option<PosixTz> = match footer_kind {
        2 => Some(PosixTz { std_off: gen_offset_posix(rng), dst: None }),
        3 => Some(gen_posix(rng, version == 3)),
        _ => None,
    };
    let mut trans: Vec<(i64, u8)> = times.iter().map(|t| (*t, rng.below(n_types as u64) as u8)).collect();
    // consecutive transitions should change something, as in real files (not required, but realistic)
    if let (Some(p), Some(last)) = (&posix, trans.last_mut()) {
        let want = p.offset_at(last.0);
        let idx = match types.iter().position(|t| t.0 == want) {
            Some(i) => i,
            None => {
                types.push((want, p.dst.as_ref().map(|d| d.off == want).unwrap_or(false), 0));
                types.len() - 1
            }
        };
        last.1 = idx as u8;
    }
    let chars: Vec<u8> = b"LMT\0STD\0DST\0".to_vec();
    for t in types.iter_mut() {
        t.2 = [0u8, 4, 8][rng.usize(3)];
    }
    let n = types.len();
    let isstd: Vec<u8> = if rng.chance(1, 2) { (0..n).map(|_| rng.below(2) as u8).collect() } else { Vec::new() };
    let isut: Vec<u8> = if !isstd.is_empty() && rng.chance(1, 2) {
        (0..n).map(|i| if isstd[i] == 1 { rng.below(2) as u8 } else { 0 }).collect()
    } else {
        Vec::new()
    };
    let leaps: Vec<(i64, i32)> = if with_leaps {
        let k = rng.range(1, 5);
        let mut v = Vec::new();
        let mut t = cal::unix_from_civil(1972, 7, 1, 0, 0, 0);
        for i in 0..k {
            v.push((t + i, i as i32 + 1));
            t += rng.range(1, 6) * 15_778_800;
        }
        v
    } else {
        Vec::new()
    };
    let footer = match footer_kind {
        0 => None,
        1 => Some(String::new()),
        _ => Some(render_posix(rng, posix.as_ref().unwrap())),
    };
    let spec = TzSpec {
        version,
        trans: std::mem::take(&mut trans),
        types,
        chars,
        leaps,
        isstd,
        isut,
        footer,
        v1_mode: rng.below(3) as u8,
    };
    let label = format!(
        "synth v{} trans={} types={} footer={:?}{}",
        spec.version,
        spec.trans.len(),
        spec.types.len(),
        spec.footer,
        if with_leaps { " leaps" } else { "" }
    );
    Synth { spec, label }
}
