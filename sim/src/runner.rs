//! Spreads runs over worker threads; each worker owns an independent world. Results are merged
//! commutatively, so the output does not depend on the worker count. A monitor thread watches
//! for calls into astrolabe that do not return.

use crate::report::Stats;
use crate::world::{self, Slot};
use std::sync::atomic::{AtomicU64, Ordering};
use std::sync::Arc;

/// Once this many violations have been collected the workers stop taking new runs.
pub const MAX_VIOLATIONS: u64 = 48;

pub fn threads() -> usize {
    if let Ok(v) = std::env::var("VERIF_THREADS") {
        if let Ok(n) = v.parse::<usize>() {
            if n >= 1 {
                return n;
            }
        }
    }
    std::thread::available_parallelism()
        .map(|n| n.get())
        .unwrap_or(4)
        .min(16)
}

pub fn hang_ms() -> u64 {
    std::env::var("VERIF_HANG_MS")
        .ok()
        .and_then(|v| v.parse().ok())
        .unwrap_or(20_000)
}

/// Runs `f(run_index, &mut stats)` for run_index in 0..n_runs on `threads()` workers.
/// `on_hang(run_index)` is called from the monitor thread when a guarded call has not returned
/// within the watchdog limit; it must not return (it reports and exits the process).
pub fn run_parallel<F, H>(n_runs: u64, f: F, on_hang: H) -> Stats
where
    F: Fn(u64, &mut Stats) + Sync,
    H: Fn(u64) + Sync,
{
    world::install_panic_hook();
    let nthreads = threads().min(n_runs.max(1) as usize).max(1);
    let next = AtomicU64::new(0);
    let slots: Vec<Arc<Slot>> = (0..nthreads)
        .map(|_| {
            Arc::new(Slot {
                call_start_ms: AtomicU64::new(0),
                run_index: AtomicU64::new(0),
            })
        })
        .collect();
    let done = AtomicU64::new(0);
    let found = AtomicU64::new(0);
    let limit = hang_ms();
    let inflight_owned = std::env::var("VERIF_INFLIGHT").ok();
    let inflight: Option<&str> = inflight_owned.as_deref();
    let mut total = Stats::default();
    std::thread::scope(|scope| {
        let mut handles = Vec::new();
        for t in 0..nthreads {
            let slot = slots[t].clone();
            let next = &next;
            let found = &found;
            let f = &f;
            let done = &done;
            handles.push(scope.spawn(move || {
                world::set_slot(Some(slot.clone()));
                let mut stats = Stats::default();
                let mut counted = 0usize;
                loop {
                    let start = next.fetch_add(32, Ordering::SeqCst);
                    if start >= n_runs || found.load(Ordering::SeqCst) >= MAX_VIOLATIONS {
                        break;
                    }
                    for run in start..(start + 32).min(n_runs) {
                        // a few dozen violations decide the check; exploring (and minimising) on
                        // after that only costs time
                        if found.load(Ordering::SeqCst) >= MAX_VIOLATIONS {
                            break;
                        }
                        found.fetch_add((stats.violations.len() - counted) as u64, Ordering::SeqCst);
                        counted = stats.violations.len();
                        slot.run_index.store(run, Ordering::SeqCst);
                        if let Some(path) = inflight {
                            let _ = std::fs::write(path, run.to_string());
                        }
                        f(run, &mut stats);
                    }
                }
                world::set_slot(None);
                done.fetch_add(1, Ordering::SeqCst);
                stats
            }));
        }
        // monitor
        let slots2 = &slots;
        let done2 = &done;
        let on_hang = &on_hang;
        scope.spawn(move || loop {
            if done2.load(Ordering::SeqCst) as usize >= nthreads {
                break;
            }
            std::thread::sleep(std::time::Duration::from_millis(50));
            let now = world::now_ms();
            for s in slots2.iter() {
                let st = s.call_start_ms.load(Ordering::SeqCst);
                if st != 0 && now > st && now - st > limit {
                    on_hang(s.run_index.load(Ordering::SeqCst));
                    std::process::exit(4);
                }
            }
        });
        for h in handles {
            match h.join() {
                Ok(s) => total.merge(s),
                Err(_) => {
                    eprintln!("HARNESS-ERROR: a simulator worker panicked outside a guarded call");
                    std::process::exit(2);
                }
            }
        }
    });
    total.samples.sort_by_key(|(r, _)| *r);
    total.violations.sort_by(|a, b| (a.run, &a.key).cmp(&(b.run, &b.key)));
    total
}

/// Runs `f` on the current thread with a watchdog: if a guarded call does not return within the
/// limit, `on_hang` is called from a monitor thread (it should report and exit).
pub fn with_watchdog<T>(f: impl FnOnce() -> T, on_hang: impl Fn() + Send + 'static) -> T {
    world::install_panic_hook();
    let slot = Arc::new(Slot {
        call_start_ms: AtomicU64::new(0),
        run_index: AtomicU64::new(0),
    });
    world::set_slot(Some(slot.clone()));
    let limit = hang_ms();
    let stop = Arc::new(AtomicU64::new(0));
    let stop2 = stop.clone();
    std::thread::spawn(move || loop {
        if stop2.load(Ordering::SeqCst) != 0 {
            break;
        }
        std::thread::sleep(std::time::Duration::from_millis(50));
        let st = slot.call_start_ms.load(Ordering::SeqCst);
        let now = world::now_ms();
        if st != 0 && now > st && now - st > limit {
            on_hang();
            std::process::exit(1);
        }
    });
    let r = f();
    stop.store(1, Ordering::SeqCst);
    world::set_slot(None);
    r
}
