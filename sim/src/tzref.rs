//! Reference RFC 8536 (TZif) reader and POSIX-TZ rule evaluator. i64 arithmetic, own calendar;
//! shares nothing with astrolabe. Cross-validated against CPython's zoneinfo (see xval).

use crate::cal;

#[derive(Clone, Debug, PartialEq)]
pub struct RefType {
    pub utoff: i32,
    pub isdst: bool,
    pub abbr: u8,
}

#[derive(Clone, Debug, PartialEq)]
pub enum RuleDate {
    /// Jn: 1..=365, 29 February never counted.
    J(u32),
    /// n: 0..=365, 29 February counted in leap years.
    N(u32),
    /// Mm.w.d
    M { m: u32, w: u32, d: u32 },
}

#[derive(Clone, Debug, PartialEq)]
pub struct Dst {
    /// UTC offset (seconds east) while daylight time is in effect.
    pub off: i32,
    pub start: RuleDate,
    pub start_time: i32,
    pub end: RuleDate,
    pub end_time: i32,
}

#[derive(Clone, Debug, PartialEq)]
pub struct PosixTz {
    /// UTC offset (seconds east) of standard time.
    pub std_off: i32,
    pub dst: Option<Dst>,
}

#[derive(Clone, Debug, PartialEq)]
pub enum Footer {
    /// Version 1 file: no footer at all.
    Absent,
    /// Footer present and empty (`\n\n`): RFC 8536 leaves times after the last transition unspecified.
    Empty,
    Rule(PosixTz),
}

#[derive(Clone, Debug, PartialEq)]
pub struct RefZone {
    pub version: u8,
    pub trans: Vec<(i64, u8)>,
    pub types: Vec<RefType>,
    pub leaps: Vec<(i64, i32)>,
    pub footer: Footer,
    pub footer_text: String,
}

#[derive(Clone, Copy, Debug, PartialEq)]
pub enum Answer {
    Offset(i32),
    /// The property (or RFC 8536) does not define the answer here.
    Unjudged(&'static str),
}

struct Cur<'a> {
    b: &'a [u8],
    i: usize,
}

impl<'a> Cur<'a> {
    fn take(&mut self, n: usize) -> Result<&'a [u8], String> {
        if self.b.len() - self.i < n {
            return Err(format!("truncated: need {} bytes at {}, have {}", n, self.i, self.b.len() - self.i));
        }
        let s = &self.b[self.i..self.i + n];
        self.i += n;
        Ok(s)
    }
    fn u32(&mut self) -> Result<u32, String> {
        let s = self.take(4)?;
        Ok(u32::from_be_bytes([s[0], s[1], s[2], s[3]]))
    }
}

struct Header {
    version: u8,
    isutcnt: usize,
    isstdcnt: usize,
    leapcnt: usize,
    timecnt: usize,
    typecnt: usize,
    charcnt: usize,
}

fn header(c: &mut Cur) -> Result<Header, String> {
    let magic = c.take(4)?;
    if magic != b"TZif" {
        return Err("bad magic".into());
    }
    let v = c.take(1)?[0];
    let version = match v {
        0 => 1,
        b'2' => 2,
        b'3' => 3,
        _ => return Err(format!("unsupported version byte {:#x}", v)),
    };
    c.take(15)?;
    Ok(Header {
        version,
        isutcnt: c.u32()? as usize,
        isstdcnt: c.u32()? as usize,
        leapcnt: c.u32()? as usize,
        timecnt: c.u32()? as usize,
        typecnt: c.u32()? as usize,
        charcnt: c.u32()? as usize,
    })
}

struct Block {
    trans: Vec<(i64, u8)>,
    types: Vec<RefType>,
    leaps: Vec<(i64, i32)>,
}

fn block(c: &mut Cur, h: &Header, tsz: usize) -> Result<Block, String> {
    let need = (h.timecnt as u128) * (tsz as u128 + 1)
        + h.typecnt as u128 * 6
        + h.charcnt as u128
        + h.leapcnt as u128 * (tsz as u128 + 4)
        + h.isstdcnt as u128
        + h.isutcnt as u128;
    if need > (c.b.len() - c.i) as u128 {
        return Err("counts overrun the file".into());
    }
    let times = c.take(h.timecnt * tsz)?;
    let idx = c.take(h.timecnt)?;
    let types_raw = c.take(h.typecnt * 6)?;
    let _chars = c.take(h.charcnt)?;
    let leaps_raw = c.take(h.leapcnt * (tsz + 4))?;
    let _isstd = c.take(h.isstdcnt)?;
    let _isut = c.take(h.isutcnt)?;
    let mut trans = Vec::new();
    for k in 0..h.timecnt {
        let t = if tsz == 4 {
            i32::from_be_bytes(times[k * 4..k * 4 + 4].try_into().unwrap()) as i64
        } else {
            i64::from_be_bytes(times[k * 8..k * 8 + 8].try_into().unwrap())
        };
        trans.push((t, idx[k]));
    }
    let mut types = Vec::new();
    for k in 0..h.typecnt {
        let r = &types_raw[k * 6..k * 6 + 6];
        types.push(RefType {
            utoff: i32::from_be_bytes(r[0..4].try_into().unwrap()),
            isdst: r[4] != 0,
            abbr: r[5],
        });
    }
    let mut leaps = Vec::new();
    for k in 0..h.leapcnt {
        let r = &leaps_raw[k * (tsz + 4)..(k + 1) * (tsz + 4)];
        let t = if tsz == 4 {
            i32::from_be_bytes(r[0..4].try_into().unwrap()) as i64
        } else {
            i64::from_be_bytes(r[0..8].try_into().unwrap())
        };
        let corr = i32::from_be_bytes(r[tsz..tsz + 4].try_into().unwrap());
        leaps.push((t, corr));
    }
    // RFC 8536 well-formedness
    if h.typecnt == 0 {
        return Err("typecnt is zero".into());
    }
    if types.iter().any(|t| t.utoff == i32::MIN) {
        return Err("utoff of -2^31 (RFC 8536: must not be used)".into());
    }
    if h.isstdcnt != 0 && h.isstdcnt != h.typecnt {
        return Err("isstdcnt".into());
    }
    if h.isutcnt != 0 && h.isutcnt != h.typecnt {
        return Err("isutcnt".into());
    }
    for w in trans.windows(2) {
        if w[0].0 >= w[1].0 {
            return Err("transition times not strictly ascending".into());
        }
    }
    for (_, i) in &trans {
        if *i as usize >= h.typecnt {
            return Err("transition type index out of range".into());
        }
    }
    Ok(Block { trans, types, leaps })
}

pub fn parse_tzif(bytes: &[u8]) -> Result<RefZone, String> {
    let mut c = Cur { b: bytes, i: 0 };
    let h1 = header(&mut c)?;
    if h1.version == 1 {
        let b = block(&mut c, &h1, 4)?;
        return Ok(RefZone {
            version: 1,
            trans: b.trans,
            types: b.types,
            leaps: b.leaps,
            footer: Footer::Absent,
            footer_text: String::new(),
        });
    }
    // skip the v1 block by its counts (it may legitimately be empty: typecnt 0 is tolerated there? RFC
    // requires it to be a valid block too, but readers must skip it by size only)
    let skip = h1.timecnt as u128 * 5
        + h1.typecnt as u128 * 6
        + h1.charcnt as u128
        + h1.leapcnt as u128 * 8
        + h1.isstdcnt as u128
        + h1.isutcnt as u128;
    if skip > (bytes.len() - c.i) as u128 {
        return Err("v1 block overruns the file".into());
    }
    c.take(skip as usize)?;
    let h2 = header(&mut c)?;
    if h2.version != h1.version {
        return Err("second header has another version".into());
    }
    let b = block(&mut c, &h2, 8)?;
    let foot = &bytes[c.i..];
    if foot.len() < 2 || foot[0] != b'\n' || foot[foot.len() - 1] != b'\n' {
        return Err("footer not enclosed in newlines".into());
    }
    let text = std::str::from_utf8(&foot[1..foot.len() - 1]).map_err(|e| e.to_string())?;
    if text.contains('\n') {
        return Err("newline inside footer".into());
    }
    let footer = if text.is_empty() {
        Footer::Empty
    } else {
        Footer::Rule(parse_posix(text, h2.version >= 3)?)
    };
    Ok(RefZone {
        version: h2.version,
        trans: b.trans,
        types: b.types,
        leaps: b.leaps,
        footer,
        footer_text: text.to_string(),
    })
}

// ------------------------------------------------------------------------------------------------
// POSIX TZ
// ------------------------------------------------------------------------------------------------

struct P<'a> {
    b: &'a [u8],
    i: usize,
}

impl<'a> P<'a> {
    fn peek(&self) -> Option<u8> {
        self.b.get(self.i).copied()
    }
    fn name(&mut self) -> Result<(), String> {
        if self.peek() == Some(b'<') {
            self.i += 1;
            let start = self.i;
            while let Some(c) = self.peek() {
                if c == b'>' {
                    break;
                }
                if !(c.is_ascii_alphanumeric() || c == b'+' || c == b'-') {
                    return Err("bad character in quoted designation".into());
                }
                self.i += 1;
            }
            if self.peek() != Some(b'>') {
                return Err("unterminated <".into());
            }
            if self.i - start < 3 {
                return Err("designation shorter than 3".into());
            }
            self.i += 1;
            Ok(())
        } else {
            let start = self.i;
            while let Some(c) = self.peek() {
                if c.is_ascii_alphabetic() {
                    self.i += 1;
                } else {
                    break;
                }
            }
            if self.i - start < 3 {
                return Err("designation shorter than 3".into());
            }
            Ok(())
        }
    }
    fn num(&mut self, max_digits: usize) -> Result<i32, String> {
        let start = self.i;
        while let Some(c) = self.peek() {
            if c.is_ascii_digit() && self.i - start < max_digits {
                self.i += 1;
            } else {
                break;
            }
        }
        if self.i == start {
            return Err(format!("number expected at {}", start));
        }
        std::str::from_utf8(&self.b[start..self.i]).unwrap().parse::<i32>().map_err(|e| e.to_string())
    }
    /// [+-]hh[:mm[:ss]] -> seconds; hours limited to `max_h`.
    fn hms(&mut self, max_h: i32, allow_sign: bool) -> Result<i32, String> {
        let mut sign = 1;
        if allow_sign {
            if self.peek() == Some(b'-') {
                sign = -1;
                self.i += 1;
            } else if self.peek() == Some(b'+') {
                self.i += 1;
            }
        }
        let h = self.num(3)?;
        if h > max_h {
            return Err("hour out of range".into());
        }
        let mut m = 0;
        let mut s = 0;
        if self.peek() == Some(b':') {
            self.i += 1;
            m = self.num(2)?;
            if m > 59 {
                return Err("minute out of range".into());
            }
            if self.peek() == Some(b':') {
                self.i += 1;
                s = self.num(2)?;
                if s > 59 {
                    return Err("second out of range".into());
                }
            }
        }
        Ok(sign * (h * 3600 + m * 60 + s))
    }
    fn date(&mut self) -> Result<RuleDate, String> {
        match self.peek() {
            Some(b'J') => {
                self.i += 1;
                let n = self.num(3)? as u32;
                if !(1..=365).contains(&n) {
                    return Err("Jn out of range".into());
                }
                Ok(RuleDate::J(n))
            }
            Some(b'M') => {
                self.i += 1;
                let m = self.num(2)? as u32;
                if self.peek() != Some(b'.') {
                    return Err("'.' expected".into());
                }
                self.i += 1;
                let w = self.num(1)? as u32;
                if self.peek() != Some(b'.') {
                    return Err("'.' expected".into());
                }
                self.i += 1;
                let d = self.num(1)? as u32;
                if !(1..=12).contains(&m) || !(1..=5).contains(&w) || d > 6 {
                    return Err("Mm.w.d out of range".into());
                }
                Ok(RuleDate::M { m, w, d })
            }
            Some(c) if c.is_ascii_digit() => {
                let n = self.num(3)? as u32;
                if n > 365 {
                    return Err("n out of range".into());
                }
                Ok(RuleDate::N(n))
            }
            _ => Err("rule date expected".into()),
        }
    }
}

pub fn parse_posix(s: &str, v3: bool) -> Result<PosixTz, String> {
    let mut p = P { b: s.as_bytes(), i: 0 };
    p.name()?;
    let std_posix = p.hms(24, true)?;
    if p.i == p.b.len() {
        return Ok(PosixTz { std_off: -std_posix, dst: None });
    }
    p.name()?;
    let dst_posix = match p.peek() {
        Some(b',') => std_posix - 3600,
        Some(_) => p.hms(24, true)?,
        None => return Err("daylight time without a rule (POSIX default rule; not used by IANA files)".into()),
    };
    if p.peek() != Some(b',') {
        return Err("',' expected".into());
    }
    p.i += 1;
    let start = p.date()?;
    let mut start_time = 7200;
    if p.peek() == Some(b'/') {
        p.i += 1;
        start_time = if v3 { p.hms(167, true)? } else { p.hms(24, false)? };
    }
    if p.peek() != Some(b',') {
        return Err("',' expected".into());
    }
    p.i += 1;
    let end = p.date()?;
    let mut end_time = 7200;
    if p.peek() == Some(b'/') {
        p.i += 1;
        end_time = if v3 { p.hms(167, true)? } else { p.hms(24, false)? };
    }
    if p.i != p.b.len() {
        return Err("trailing characters".into());
    }
    Ok(PosixTz {
        std_off: -std_posix,
        dst: Some(Dst { off: -dst_posix, start, start_time, end, end_time }),
    })
}

/// Day number (days since 1970-01-01) of a rule date in year `y`.
pub fn rule_day(r: &RuleDate, y: i64) -> i64 {
    let jan1 = cal::days_from_civil(y, 1, 1);
    match r {
        RuleDate::J(n) => {
            let mut doy0 = *n as i64 - 1;
            if cal::is_leap(y) && *n >= 60 {
                doy0 += 1;
            }
            jan1 + doy0
        }
        RuleDate::N(n) => jan1 + *n as i64,
        RuleDate::M { m, w, d } => {
            let first = cal::days_from_civil(y, *m, 1);
            let wd = cal::weekday_from_days(first) as i64;
            let mut day = 1 + (*d as i64 - wd).rem_euclid(7) + 7 * (*w as i64 - 1);
            let dim = cal::days_in_month(y, *m) as i64;
            while day > dim {
                day -= 7;
            }
            first + day - 1
        }
    }
}

impl PosixTz {
    /// The switch-over instants (UTC) of year `y`: (start of daylight time, end of daylight time).
    pub fn switches(&self, y: i64) -> Option<(i64, i64)> {
        let d = self.dst.as_ref()?;
        let start = rule_day(&d.start, y) * 86400 + d.start_time as i64 - self.std_off as i64;
        let end = rule_day(&d.end, y) * 86400 + d.end_time as i64 - d.off as i64;
        Some((start, end))
    }

    pub fn offset_at(&self, t: i64) -> i32 {
        let d = match &self.dst {
            None => return self.std_off,
            Some(d) => d,
        };
        let y = cal::year_of_unix(t);
        let mut best: Option<(i64, bool)> = None;
        for yy in [y - 1, y, y + 1] {
            let (s, e) = self.switches(yy).unwrap();
            for (inst, to_dst) in [(s, true), (e, false)] {
                if inst <= t && best.map(|(b, _)| inst > b).unwrap_or(true) {
                    best = Some((inst, to_dst));
                }
            }
        }
        match best {
            Some((_, true)) => d.off,
            _ => self.std_off,
        }
    }

    /// Distance in seconds from `t` to the nearest switch-over (for leap-second files).
    pub fn distance_to_switch(&self, t: i64) -> i64 {
        let y = cal::year_of_unix(t);
        let mut best = i64::MAX;
        for yy in [y - 1, y, y + 1] {
            if let Some((s, e)) = self.switches(yy) {
                best = best.min((t - s).abs()).min((t - e).abs());
            }
        }
        best
    }
}

impl RefZone {
    pub fn offset_at(&self, t: i64) -> Answer {
        if !self.leaps.is_empty() {
            // leap-second time scale: only instants well away from any change are judged
            for (tt, _) in &self.trans {
                if t.saturating_sub(*tt).saturating_abs() < 60 {
                    return Answer::Unjudged("within 60 s of a transition in a file with leap-second records");
                }
            }
            if let Footer::Rule(r) = &self.footer {
                if r.distance_to_switch(t) < 60 {
                    return Answer::Unjudged("within 60 s of a rule switch in a file with leap-second records");
                }
            }
        }
        if self.trans.is_empty() {
            return match &self.footer {
                Footer::Rule(r) => Answer::Offset(r.offset_at(t)),
                _ => Answer::Offset(self.types[0].utoff),
            };
        }
        let first = self.trans[0].0;
        let last = self.trans[self.trans.len() - 1];
        if t < first {
            return Answer::Unjudged("before the first transition");
        }
        if t > last.0 {
            return match &self.footer {
                Footer::Rule(r) => Answer::Offset(r.offset_at(t)),
                Footer::Absent => Answer::Offset(self.types[last.1 as usize].utoff),
                Footer::Empty => Answer::Unjudged("after the last transition of a file whose footer is empty"),
            };
        }
        // latest transition at or before t
        let k = match self.trans.binary_search_by(|(tt, _)| tt.cmp(&t)) {
            Ok(k) => k,
            Err(k) => k - 1,
        };
        Answer::Offset(self.types[self.trans[k].1 as usize].utoff)
    }

    /// Is the footer consistent with the last transition (RFC 8536 3.3)?
    pub fn footer_consistent(&self) -> bool {
        match (&self.footer, self.trans.last()) {
            (Footer::Rule(r), Some((t, i))) => r.offset_at(*t) == self.types[*i as usize].utoff,
            _ => true,
        }
    }

    /// Do the footer's yearly switch-overs satisfy the property's premise (more than a week apart
    /// and more than a week from 1 January) in every year of the sample?
    pub fn premise_holds(&self) -> bool {
        match &self.footer {
            Footer::Rule(r) => rule_premise(r),
            _ => true,
        }
    }
}

pub fn rule_premise(r: &PosixTz) -> bool {
    if r.dst.is_none() {
        return true;
    }
    const MARGIN: i64 = 8 * 86400;
    for y in (1995..2075).chain(2095..2105).chain(2395..2405) {
        let (s, e) = r.switches(y).unwrap();
        let jan1 = cal::days_from_civil(y, 1, 1) * 86400;
        let jan1n = cal::days_from_civil(y + 1, 1, 1) * 86400;
        for inst in [s, e] {
            if inst - jan1 < MARGIN || jan1n - inst < MARGIN {
                return false;
            }
        }
        if (s - e).abs() < MARGIN {
            return false;
        }
    }
    true
}
