//! Own proleptic Gregorian calendar (Howard Hinnant's algorithms). Shares nothing with astrolabe.

pub fn is_leap(y: i64) -> bool {
    (y % 4 == 0 && y % 100 != 0) || y % 400 == 0
}

pub fn days_in_month(y: i64, m: u32) -> u32 {
    match m {
        1 | 3 | 5 | 7 | 8 | 10 | 12 => 31,
        4 | 6 | 9 | 11 => 30,
        2 => {
            if is_leap(y) {
                29
            } else {
                28
            }
        }
        _ => panic!("bad month {}", m),
    }
}

/// Days since 1970-01-01 of the civil date (astronomical year numbering).
pub fn days_from_civil(y: i64, m: u32, d: u32) -> i64 {
    let y = if m <= 2 { y - 1 } else { y };
    let era = if y >= 0 { y } else { y - 399 } / 400;
    let yoe = y - era * 400; // [0, 399]
    let mp = (m as i64 + 9) % 12; // March = 0
    let doy = (153 * mp + 2) / 5 + d as i64 - 1; // [0, 365]
    let doe = yoe * 365 + yoe / 4 - yoe / 100 + doy; // [0, 146096]
    era * 146097 + doe - 719468
}

/// Civil date of a day count since 1970-01-01.
pub fn civil_from_days(z: i64) -> (i64, u32, u32) {
    let z = z + 719468;
    let era = if z >= 0 { z } else { z - 146096 } / 146097;
    let doe = z - era * 146097; // [0, 146096]
    let yoe = (doe - doe / 1460 + doe / 36524 - doe / 146096) / 365; // [0, 399]
    let y = yoe + era * 400;
    let doy = doe - (365 * yoe + yoe / 4 - yoe / 100); // [0, 365]
    let mp = (5 * doy + 2) / 153; // [0, 11]
    let d = (doy - (153 * mp + 2) / 5 + 1) as u32;
    let m = if mp < 10 { mp + 3 } else { mp - 9 } as u32;
    (if m <= 2 { y + 1 } else { y }, m, d)
}

/// 0 = Sunday ... 6 = Saturday.
pub fn weekday_from_days(z: i64) -> u32 {
    (z + 4).rem_euclid(7) as u32
}

/// (year, month, day, hour, minute, second) of a Unix timestamp in UTC.
pub fn civil_from_unix(t: i64) -> (i64, u32, u32, u32, u32, u32) {
    let days = t.div_euclid(86400);
    let sod = t.rem_euclid(86400);
    let (y, m, d) = civil_from_days(days);
    (
        y,
        m,
        d,
        (sod / 3600) as u32,
        (sod % 3600 / 60) as u32,
        (sod % 60) as u32,
    )
}

pub fn unix_from_civil(y: i64, m: u32, d: u32, hh: u32, mm: u32, ss: u32) -> i64 {
    days_from_civil(y, m, d) * 86400 + hh as i64 * 3600 + mm as i64 * 60 + ss as i64
}

pub fn year_of_unix(t: i64) -> i64 {
    civil_from_days(t.div_euclid(86400)).0
}

pub fn fmt_unix(t: i64) -> String {
    let (y, m, d, hh, mm, ss) = civil_from_unix(t);
    format!("{:04}-{:02}-{:02}T{:02}:{:02}:{:02}Z", y, m, d, hh, mm, ss)
}

/// Self-test of the calendar: round trips and known anchors.
pub fn selftest() -> Result<u64, String> {
    let mut n = 0u64;
    // known anchors
    let anchors: [((i64, u32, u32), i64, u32); 8] = [
        ((1970, 1, 1), 0, 4),
        ((2000, 1, 1), 10957, 6),
        ((2000, 2, 29), 11016, 2),
        ((2000, 3, 1), 11017, 3),
        ((2022, 1, 1), 18993, 6),
        ((2100, 3, 1), 47541, 1),
        ((2400, 2, 29), 157113, 2),
        ((1900, 1, 1), -25567, 1),
    ];
    for ((y, m, d), days, wd) in anchors {
        if days_from_civil(y, m, d) != days {
            return Err(format!("days_from_civil({},{},{}) = {} != {}", y, m, d, days_from_civil(y, m, d), days));
        }
        if civil_from_days(days) != (y, m, d) {
            return Err(format!("civil_from_days({})", days));
        }
        if weekday_from_days(days) != wd {
            return Err(format!("weekday({}-{}-{}) = {} != {}", y, m, d, weekday_from_days(days), wd));
        }
        n += 3;
    }
    // round trip and monotone over 1890..2520
    let mut prev = days_from_civil(1890, 1, 1) - 1;
    for y in 1890..2520i64 {
        for m in 1..=12u32 {
            for d in 1..=days_in_month(y, m) {
                let z = days_from_civil(y, m, d);
                if z != prev + 1 {
                    return Err(format!("not consecutive at {}-{}-{}", y, m, d));
                }
                if civil_from_days(z) != (y, m, d) {
                    return Err(format!("round trip at {}-{}-{}", y, m, d));
                }
                prev = z;
                n += 1;
            }
        }
    }
    Ok(n)
}
