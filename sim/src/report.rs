//! Violations, known findings, replay files, evidence files, counters.

use crate::json::Json;
use std::collections::{BTreeMap, BTreeSet};
use std::path::PathBuf;

pub fn verif_dir() -> PathBuf {
    PathBuf::from(std::env::var("VERIF_DIR").unwrap_or_else(|_| "/verif".to_string()))
}

#[derive(Clone, Debug)]
pub struct Violation {
    pub property: &'static str,
    pub invariant: String,
    /// Normalised finding key (matched against known_findings.txt).
    pub key: String,
    pub what: String,
    pub run: u64,
    pub replay: Json,
    /// The unminimised document (complete history of the run), used when the minimised one does not
    /// reproduce in a fresh process (a failure that depends on earlier calls).
    pub replay_full: Option<Json>,
}

/// Counters and distinct-value sets, merged commutatively across workers.
#[derive(Clone, Debug, Default)]
pub struct Stats {
    pub counters: BTreeMap<String, u64>,
    pub sets: BTreeMap<String, BTreeSet<u64>>,
    pub samples: Vec<(u64, Json)>,
    pub violations: Vec<Violation>,
}

pub const SET_CAP: usize = 2_000_000;

impl Stats {
    pub fn add(&mut self, k: &str, n: u64) {
        if let Some(c) = self.counters.get_mut(k) {
            *c += n;
        } else {
            self.counters.insert(k.to_string(), n);
        }
    }
    pub fn inc(&mut self, k: &str) {
        self.add(k, 1)
    }
    pub fn get(&self, k: &str) -> u64 {
        self.counters.get(k).copied().unwrap_or(0)
    }
    pub fn note(&mut self, set: &str, h: u64) {
        let s = self.sets.entry(set.to_string()).or_default();
        if s.len() < SET_CAP {
            s.insert(h);
        }
    }
    pub fn distinct(&self, set: &str) -> u64 {
        self.sets.get(set).map(|s| s.len() as u64).unwrap_or(0)
    }
    pub fn merge(&mut self, other: Stats) {
        for (k, v) in other.counters {
            *self.counters.entry(k).or_insert(0) += v;
        }
        for (k, v) in other.sets {
            let s = self.sets.entry(k).or_default();
            for h in v {
                if s.len() < SET_CAP {
                    s.insert(h);
                }
            }
        }
        self.samples.extend(other.samples);
        self.violations.extend(other.violations);
    }
    pub fn counters_json(&self, prefix: &str) -> Json {
        let mut o = Json::obj();
        for (k, v) in &self.counters {
            if let Some(rest) = k.strip_prefix(prefix) {
                o.put(rest, Json::Int(*v as i128));
            }
        }
        o
    }
}

pub fn fnv(data: &[u8]) -> u64 {
    let mut h: u64 = 0xcbf29ce484222325;
    for b in data {
        h ^= *b as u64;
        h = h.wrapping_mul(0x100000001b3);
    }
    h
}

pub fn fnv_mix(h: u64, v: u64) -> u64 {
    let mut h = h;
    for b in v.to_le_bytes() {
        h ^= b as u64;
        h = h.wrapping_mul(0x100000001b3);
    }
    h
}

pub struct Known {
    pub entries: Vec<(String, String, String)>, // (property, key, text)
}

pub fn load_known() -> Known {
    let mut entries = Vec::new();
    let path = verif_dir().join("known_findings.txt");
    if let Ok(text) = std::fs::read_to_string(path) {
        for line in text.lines() {
            let line = line.trim();
            if let Some(rest) = line.strip_prefix("known:") {
                let rest = rest.trim();
                // known: property=<ID> key=<key...> :: <text>
                let mut prop = String::new();
                let mut key = String::new();
                let mut text = String::new();
                if let Some((head, tail)) = rest.split_once(" :: ") {
                    text = tail.trim().to_string();
                    if let Some((p, k)) = head.split_once(" key=") {
                        prop = p.trim().trim_start_matches("property=").to_string();
                        key = k.trim().to_string();
                    }
                }
                if !prop.is_empty() && !key.is_empty() {
                    entries.push((prop, key, text));
                }
            }
        }
    }
    Known { entries }
}

pub struct Outcome {
    pub exit_code: i32,
    pub reported: usize,
    pub known: usize,
}

/// Prints KNOWN-FINDING / VIOLATION lines, writes replay files. Returns the exit code.
pub fn report_violations(property: &str, seed: u64, violations: &mut Vec<Violation>) -> Outcome {
    violations.sort_by(|a, b| (a.run, &a.key).cmp(&(b.run, &b.key)));
    let known = load_known();
    let mut seen: BTreeMap<String, usize> = BTreeMap::new();
    let mut reported = 0usize;
    let mut known_n = 0usize;
    let dir = verif_dir().join("replays");
    let _ = std::fs::create_dir_all(&dir);
    for v in violations.iter() {
        let n = seen.entry(v.key.clone()).or_insert(0);
        *n += 1;
        if *n > 1 {
            continue;
        }
        if let Some((_, _, text)) = known
            .entries
            .iter()
            .find(|(p, k, _)| p == property && *k == v.key)
        {
            println!("KNOWN-FINDING: property={} {}", property, text);
            known_n += 1;
            continue;
        }
        reported += 1;
        if reported > 12 {
            continue;
        }
        let path = dir.join(format!("{}-s{}-r{}-{}.json", property, seed, v.run, reported));
        let mut doc = v.replay.clone();
        doc.put("key", Json::s(&v.key));
        doc.put("what", Json::s(&v.what));
        if let Err(e) = std::fs::write(&path, doc.pretty()) {
            eprintln!("HARNESS-ERROR: cannot write replay {}: {}", path.display(), e);
            std::process::exit(2);
        }
        // the minimised file must fail the same way in a fresh process; a failure that depends on
        // earlier calls (state kept by the code under test) needs the complete history instead
        let mut note = "";
        if reported <= 4 && !reproduces_in_fresh_process(&path) {
            note = "  (the minimised replay does not fail in a fresh process and no fuller history is available)";
            if let Some(full) = &v.replay_full {
                let mut doc = full.clone();
                doc.put("key", Json::s(&v.key));
                doc.put("what", Json::s(&v.what));
                doc.put("note", Json::s("unminimised: the failure depends on earlier calls in the same run; this file replays the complete history of that run"));
                let _ = std::fs::write(&path, doc.pretty());
                if reproduces_in_fresh_process(&path) {
                    // shrink the history (delta debugging, each candidate judged in a fresh process)
                    for key in ["history", "instants"] {
                        if let Some(min) = shrink_array_in_fresh_processes(&doc, key, &path) {
                            doc = min;
                        }
                    }
                    doc.put("note", Json::s("the failure depends on earlier calls in the same run; this file replays the shortest history found that still fails in a fresh process"));
                    let _ = std::fs::write(&path, doc.pretty());
                }
                note = if reproduces_in_fresh_process(&path) {
                    "  (history-dependent: the replay file carries the complete history of the run, unminimised)"
                } else {
                    "  (neither the minimised replay nor the complete history of the run fails in a fresh process: the failure depends on state from earlier runs of the same worker)"
                };
            }
        }
        println!("  {} [{}] {}{}", property, v.invariant, v.what, note);
        println!("  key={}", v.key);
        println!("VIOLATION property={} replay={}", property, path.display());
    }
    if reported > 12 {
        println!("  ({} further distinct violations not written out)", reported - 12);
    }
    Outcome {
        exit_code: if reported > 0 { 1 } else { 0 },
        reported,
        known: known_n,
    }
}

pub fn write_evidence(
    property: &str,
    tier: &str,
    seed: u64,
    level: &str,
    coverage: Json,
    assumptions: &[&str],
    wall_s: f64,
    violations: usize,
) {
    let dir = verif_dir().join("evidence");
    let _ = std::fs::create_dir_all(&dir);
    let mut coverage = coverage;
    coverage.put("verif_commit", Json::s(&std::env::var("VERIF_COMMIT").unwrap_or_else(|_| "unknown".into())));
    coverage.put("repository_tree", Json::s(&std::env::var("VERIF_REPO_COMMIT").unwrap_or_else(|_| "unknown".into())));
    let doc = Json::obj()
        .set("property_id", Json::s(property))
        .set("tier", Json::s(tier))
        .set("seed", Json::Int(seed as i128))
        .set("level", Json::s(level))
        .set("coverage", coverage)
        .set(
            "assumptions",
            Json::Arr(assumptions.iter().map(|a| Json::s(a)).collect()),
        )
        .set("wall_s", Json::Float((wall_s * 1000.0).round() / 1000.0))
        .set("violations", Json::Int(violations as i128));
    let path = dir.join(format!("{}.json", property));
    if let Err(e) = std::fs::write(&path, doc.pretty()) {
        eprintln!("HARNESS-ERROR: cannot write evidence {}: {}", path.display(), e);
        std::process::exit(2);
    }
}

/// Crash forensics: when VERIF_INFLIGHT names a file (set by the driver only for the single-threaded
/// re-run after the process died), the replay document of the step about to be executed is written
/// there first, so that whatever kills the process leaves its own replay file behind.
pub fn inflight_note(doc: impl FnOnce() -> Json) {
    use std::sync::OnceLock;
    static PATH: OnceLock<Option<String>> = OnceLock::new();
    let path = PATH.get_or_init(|| std::env::var("VERIF_INFLIGHT").ok().filter(|p| !p.is_empty()));
    if let Some(p) = path {
        let _ = std::fs::write(p, doc().pretty());
    }
}

fn reproduces_in_fresh_process(path: &std::path::Path) -> bool {
    let exe = match std::env::current_exe() {
        Ok(e) => e,
        Err(_) => return true,
    };
    match std::process::Command::new(exe).arg("replay").arg(path).env_remove("VERIF_INFLIGHT").output() {
        Ok(out) => match out.status.code() {
            Some(1) => true,
            Some(0) => false,
            // killed by a signal or died otherwise: the death is the reproduction
            _ => true,
        },
        Err(_) => true,
    }
}

/// ddmin over the array `doc[key]`, keeping the last element (the failing step) and judging every
/// candidate by replaying it in a fresh process. At most 80 child processes.
fn shrink_array_in_fresh_processes(doc: &Json, key: &str, scratch: &std::path::Path) -> Option<Json> {
    let arr = doc.get(key)?.arr()?.clone();
    if arr.len() < 2 {
        return None;
    }
    let keep_last = key == "instants";
    let tmp = scratch.with_extension("shrink.json");
    let mut budget = 80u32;
    let mut cur = arr;
    let mut test = |cand: &Vec<Json>, budget: &mut u32| -> bool {
        if *budget == 0 {
            return false;
        }
        *budget -= 1;
        let d = doc.clone().set(key, Json::Arr(cand.clone()));
        if std::fs::write(&tmp, d.to_string()).is_err() {
            return false;
        }
        reproduces_in_fresh_process(&tmp)
    };
    let mut n = 2usize;
    while cur.len() >= 2 && budget > 0 {
        let body_len = if keep_last { cur.len() - 1 } else { cur.len() };
        if body_len == 0 {
            break;
        }
        let chunk = (body_len + n - 1) / n;
        let mut reduced = false;
        let mut i = 0;
        while i < body_len {
            let end = (i + chunk).min(body_len);
            let mut cand = cur.clone();
            cand.drain(i..end);
            if test(&cand, &mut budget) {
                cur = cand;
                reduced = true;
                break;
            }
            i += chunk;
        }
        if reduced {
            n = (n - 1).max(2);
        } else {
            if chunk <= 1 {
                break;
            }
            n = (n * 2).min(body_len);
        }
    }
    let _ = std::fs::remove_file(&tmp);
    Some(doc.clone().set(key, Json::Arr(cur)))
}

/// Names of the listed reach / fault probes that never fired in this run (reported in the
/// evidence and on stdout; a probe stuck at zero means the workload or fault mix must change).
pub fn probes_at_zero(stats: &Stats, required: &[&str]) -> Json {
    let zero: Vec<Json> = required.iter().filter(|k| stats.get(k) == 0).map(|k| Json::s(k)).collect();
    if !zero.is_empty() {
        println!("note: reach probes at zero in this run: {}", zero.iter().filter_map(|j| j.str()).collect::<Vec<_>>().join(", "));
    }
    Json::Arr(zero)
}
