//! The simulated world: wall clock, file system, guarded calls into astrolabe, allocation watch.
//!
//! Everything here is per thread: each worker owns an independent world, a run is
//! single-threaded and a pure function of its plan.

use std::alloc::{GlobalAlloc, Layout, System};
use std::cell::{Cell, RefCell};
use std::io;
use std::panic::{self, AssertUnwindSafe};
use std::rc::Rc;
use std::sync::atomic::{AtomicBool, AtomicU64, Ordering};
use std::time::Duration;

// ------------------------------------------------------------------------------------------------
// Allocation watch
// ------------------------------------------------------------------------------------------------

pub struct WatchAlloc;

thread_local! {
    static IN_CALL: Cell<bool> = const { Cell::new(false) };
    static MAX_REQ: Cell<usize> = const { Cell::new(0) };
}

/// Requests above this size made inside an astrolabe call are refused (the process aborts and the
/// driver's crash path identifies the run). Below it they are served and merely recorded.
const HARD_LIMIT: usize = 8 << 30;

unsafe impl GlobalAlloc for WatchAlloc {
    unsafe fn alloc(&self, layout: Layout) -> *mut u8 {
        let in_call = IN_CALL.try_with(|c| c.get()).unwrap_or(false);
        if in_call {
            let _ = MAX_REQ.try_with(|m| {
                if layout.size() > m.get() {
                    m.set(layout.size())
                }
            });
            if layout.size() > HARD_LIMIT {
                return std::ptr::null_mut();
            }
        }
        System.alloc(layout)
    }
    unsafe fn dealloc(&self, ptr: *mut u8, layout: Layout) {
        System.dealloc(ptr, layout)
    }
    unsafe fn realloc(&self, ptr: *mut u8, layout: Layout, new_size: usize) -> *mut u8 {
        let in_call = IN_CALL.try_with(|c| c.get()).unwrap_or(false);
        if in_call {
            let _ = MAX_REQ.try_with(|m| {
                if new_size > m.get() {
                    m.set(new_size)
                }
            });
            if new_size > HARD_LIMIT {
                return std::ptr::null_mut();
            }
        }
        System.realloc(ptr, layout, new_size)
    }
}

// ------------------------------------------------------------------------------------------------
// Guarded calls
// ------------------------------------------------------------------------------------------------

#[derive(Clone, Debug, PartialEq)]
pub struct PanicInfo {
    pub msg: String,
    pub file: String,
    pub line: u32,
}

impl PanicInfo {
    /// Normalised key: message with every numeral masked plus the source file (not the line).
    pub fn key(&self) -> String {
        let mut out = String::new();
        let mut in_num = false;
        for c in self.msg.chars() {
            if c.is_ascii_digit() {
                if !in_num {
                    out.push('#');
                    in_num = true;
                }
            } else {
                in_num = false;
                out.push(c);
            }
        }
        let file = self.file.rsplit("/src/").next().unwrap_or(&self.file);
        let short: String = out.chars().take(120).collect();
        format!("panic[{}]@{}", short.replace('\n', " "), file)
    }
}

thread_local! {
    static LAST_PANIC: RefCell<Option<PanicInfo>> = const { RefCell::new(None) };
}

static HOOK_INSTALLED: AtomicBool = AtomicBool::new(false);

pub fn install_panic_hook() {
    if HOOK_INSTALLED.swap(true, Ordering::SeqCst) {
        return;
    }
    let default = panic::take_hook();
    panic::set_hook(Box::new(move |info| {
        let in_call = IN_CALL.with(|c| c.get());
        if !in_call {
            // a bug in the harness itself: keep it loud
            default(info);
            return;
        }
        let msg = if let Some(s) = info.payload().downcast_ref::<&str>() {
            s.to_string()
        } else if let Some(s) = info.payload().downcast_ref::<String>() {
            s.clone()
        } else {
            "<non-string panic payload>".to_string()
        };
        let (file, line) = info
            .location()
            .map(|l| (l.file().to_string(), l.line()))
            .unwrap_or_else(|| ("?".into(), 0));
        LAST_PANIC.with(|p| *p.borrow_mut() = Some(PanicInfo { msg, file, line }));
    }));
}

/// Per-worker watchdog slot: (start of the in-flight call in ms since process start, or 0; run index).
pub struct Slot {
    pub call_start_ms: AtomicU64,
    pub run_index: AtomicU64,
}

thread_local! {
    static SLOT: RefCell<Option<std::sync::Arc<Slot>>> = const { RefCell::new(None) };
}

pub fn set_slot(slot: Option<std::sync::Arc<Slot>>) {
    SLOT.with(|s| *s.borrow_mut() = slot);
}

pub fn now_ms() -> u64 {
    use std::sync::OnceLock;
    static START: OnceLock<std::time::Instant> = OnceLock::new();
    START.get_or_init(std::time::Instant::now).elapsed().as_millis() as u64 + 1
}

#[derive(Debug)]
pub struct CallOutcome<T> {
    pub result: Result<T, PanicInfo>,
    /// Largest single allocation request made during the call.
    pub max_alloc: usize,
}

/// Runs one call into astrolabe: panics are caught and described, the largest allocation request
/// is recorded and the watchdog slot of this worker is armed for the duration of the call.
pub fn guarded<T>(f: impl FnOnce() -> T) -> CallOutcome<T> {
    SLOT.with(|s| {
        if let Some(slot) = s.borrow().as_ref() {
            slot.call_start_ms.store(now_ms(), Ordering::SeqCst);
        }
    });
    MAX_REQ.with(|m| m.set(0));
    LAST_PANIC.with(|p| *p.borrow_mut() = None);
    IN_CALL.with(|c| c.set(true));
    let r = panic::catch_unwind(AssertUnwindSafe(f));
    IN_CALL.with(|c| c.set(false));
    let max_alloc = MAX_REQ.with(|m| m.get());
    SLOT.with(|s| {
        if let Some(slot) = s.borrow().as_ref() {
            slot.call_start_ms.store(0, Ordering::SeqCst);
        }
    });
    let result = match r {
        Ok(v) => Ok(v),
        Err(_) => Err(LAST_PANIC.with(|p| p.borrow_mut().take()).unwrap_or(PanicInfo {
            msg: "<panic without hook record>".into(),
            file: "?".into(),
            line: 0,
        })),
    };
    CallOutcome { result, max_alloc }
}

// ------------------------------------------------------------------------------------------------
// SimClock
// ------------------------------------------------------------------------------------------------

#[derive(Clone, Copy, Debug, PartialEq, Eq, PartialOrd, Ord)]
pub struct Instant {
    pub secs: u64,
    pub nanos: u32,
}

impl Instant {
    pub fn new(secs: u64, nanos: u32) -> Self {
        Instant { secs, nanos }
    }
    pub fn add_ns(self, ns: u128) -> Self {
        let total = self.secs as u128 * 1_000_000_000 + self.nanos as u128 + ns;
        Instant {
            secs: (total / 1_000_000_000) as u64,
            nanos: (total % 1_000_000_000) as u32,
        }
    }
    pub fn sub_ns_saturating(self, ns: u128) -> Self {
        let total = (self.secs as u128 * 1_000_000_000 + self.nanos as u128).saturating_sub(ns);
        Instant {
            secs: (total / 1_000_000_000) as u64,
            nanos: (total % 1_000_000_000) as u32,
        }
    }
    pub fn as_ns(self) -> u128 {
        self.secs as u128 * 1_000_000_000 + self.nanos as u128
    }
}

#[derive(Debug)]
pub struct ClockState {
    pub now: Instant,
    /// Simulated time a clock read itself costs ("slow node"), in nanoseconds.
    pub read_cost_ns: u64,
    /// Every value served to the code under test, in order.
    pub reads: Vec<Instant>,
}

#[derive(Clone)]
pub struct SimClock(pub Rc<RefCell<ClockState>>);

impl SimClock {
    pub fn install(start: Instant) -> SimClock {
        let st = Rc::new(RefCell::new(ClockState {
            now: start,
            read_cost_ns: 0,
            reads: Vec::new(),
        }));
        let st2 = st.clone();
        astrolabe::verif::set_clock(Some(Box::new(move || {
            let mut s = st2.borrow_mut();
            let v = s.now;
            s.reads.push(v);
            if s.read_cost_ns > 0 {
                s.now = v.add_ns(s.read_cost_ns as u128);
            }
            Duration::new(v.secs, v.nanos)
        })));
        SimClock(st)
    }
    pub fn uninstall() {
        astrolabe::verif::set_clock(None);
    }
    pub fn set(&self, t: Instant) {
        self.0.borrow_mut().now = t;
    }
    pub fn now(&self) -> Instant {
        self.0.borrow().now
    }
    pub fn advance_ns(&self, ns: u128) {
        let mut s = self.0.borrow_mut();
        s.now = s.now.add_ns(ns);
    }
    pub fn set_read_cost(&self, ns: u64) {
        self.0.borrow_mut().read_cost_ns = ns;
    }
    pub fn reads_len(&self) -> usize {
        self.0.borrow().reads.len()
    }
    pub fn read_at(&self, i: usize) -> Instant {
        self.0.borrow().reads[i]
    }
    pub fn last_read(&self) -> Option<Instant> {
        self.0.borrow().reads.last().copied()
    }
    pub fn clear_log(&self) {
        self.0.borrow_mut().reads.clear();
    }
}

// ------------------------------------------------------------------------------------------------
// SimFs
// ------------------------------------------------------------------------------------------------

#[derive(Clone, Debug, PartialEq)]
pub enum ReadFault {
    NotFound,
    PermissionDenied,
    Eio,
    Interrupted,
}

impl ReadFault {
    pub fn name(&self) -> &'static str {
        match self {
            ReadFault::NotFound => "NotFound",
            ReadFault::PermissionDenied => "PermissionDenied",
            ReadFault::Eio => "Other",
            ReadFault::Interrupted => "Interrupted",
        }
    }
    pub fn from_name(s: &str) -> Option<ReadFault> {
        Some(match s {
            "NotFound" => ReadFault::NotFound,
            "PermissionDenied" => ReadFault::PermissionDenied,
            "Other" => ReadFault::Eio,
            "Interrupted" => ReadFault::Interrupted,
            _ => return None,
        })
    }
    fn to_io(&self) -> io::Error {
        match self {
            ReadFault::NotFound => io::Error::new(io::ErrorKind::NotFound, "simulated ENOENT"),
            ReadFault::PermissionDenied => {
                io::Error::new(io::ErrorKind::PermissionDenied, "simulated EACCES")
            }
            ReadFault::Eio => io::Error::new(io::ErrorKind::Other, "simulated EIO"),
            ReadFault::Interrupted => io::Error::new(io::ErrorKind::Interrupted, "simulated EINTR"),
        }
    }
}

/// A step an external writer performs on the stored file between two chunk reads of one
/// in-flight `fs::read` (or between reads).
#[derive(Clone, Debug, PartialEq)]
pub enum WriterStep {
    /// Overwrite `data` at `offset` in place (extends the file if needed).
    PwriteAt { offset: usize, data: Vec<u8> },
    /// Truncate the file to `len` bytes.
    Truncate { len: usize },
    /// Replace the directory entry by a new inode with this content (rename).
    RenameReplace { data: Vec<u8> },
}

#[derive(Debug, Default)]
pub struct FsState {
    /// Inode table; `current` is what the path points at. `None` = path does not exist.
    pub inodes: Vec<Vec<u8>>,
    pub current: Option<usize>,
    /// Error the next read returns (consumed).
    pub next_read_fault: Option<ReadFault>,
    /// Chunk size of the simulated read loop (0 = whole file in one step).
    pub chunk: usize,
    /// Writer steps to interleave with the chunk reads of the next read: (after chunk k, step).
    pub interleave: Vec<(usize, WriterStep)>,
    /// Log: every read served: Ok(bytes) or Err(kind name).
    pub served: Vec<Result<Vec<u8>, &'static str>>,
    pub paths: Vec<String>,
    /// Number of reads during which an interleaved writer step really changed what was returned.
    pub torn_effective: u64,
}

impl FsState {
    pub fn apply(&mut self, step: &WriterStep) {
        match step {
            WriterStep::PwriteAt { offset, data } => {
                if let Some(cur) = self.current {
                    let f = &mut self.inodes[cur];
                    if f.len() < offset + data.len() {
                        f.resize(offset + data.len(), 0);
                    }
                    f[*offset..offset + data.len()].copy_from_slice(data);
                }
            }
            WriterStep::Truncate { len } => {
                if let Some(cur) = self.current {
                    let f = &mut self.inodes[cur];
                    if f.len() > *len {
                        f.truncate(*len);
                    } else {
                        f.resize(*len, 0);
                    }
                }
            }
            WriterStep::RenameReplace { data } => {
                self.inodes.push(data.clone());
                self.current = Some(self.inodes.len() - 1);
            }
        }
    }

    fn read(&mut self, path: &str) -> io::Result<Vec<u8>> {
        self.paths.push(path.to_string());
        if let Some(f) = self.next_read_fault.take() {
            self.served.push(Err(f.name()));
            return Err(f.to_io());
        }
        let ino = match self.current {
            Some(i) => i,
            None => {
                self.served.push(Err("NotFound"));
                return Err(ReadFault::NotFound.to_io());
            }
        };
        // open() binds to the inode; then a read loop of `chunk` bytes at a time, with writer
        // steps running between chunks as the plan dictates.
        let before = self.inodes[ino].clone();
        let mut out = Vec::new();
        let chunk = if self.chunk == 0 { usize::MAX } else { self.chunk };
        let steps = std::mem::take(&mut self.interleave);
        let mut k = 0usize;
        loop {
            let pos = out.len();
            let f = &self.inodes[ino];
            if pos >= f.len() {
                // a read at or past EOF returns 0: loop ends (also when the file was truncated
                // under the reader)
                break;
            }
            let end = pos.saturating_add(chunk).min(f.len());
            out.extend_from_slice(&f[pos..end]);
            for (after, step) in steps.iter() {
                if *after == k {
                    self.apply(step);
                }
            }
            k += 1;
        }
        if !steps.is_empty() && out != before {
            let after_all = self.inodes[ino].clone();
            if out != after_all {
                self.torn_effective += 1;
            }
        }
        self.served.push(Ok(out.clone()));
        Ok(out)
    }
}

#[derive(Clone)]
pub struct SimFs(pub Rc<RefCell<FsState>>);

impl SimFs {
    pub fn install(initial: Option<Vec<u8>>) -> SimFs {
        let mut st = FsState::default();
        if let Some(b) = initial {
            st.inodes.push(b);
            st.current = Some(0);
        }
        let st = Rc::new(RefCell::new(st));
        let st2 = st.clone();
        astrolabe::verif::set_fs(Some(Box::new(move |path: &str| st2.borrow_mut().read(path))));
        SimFs(st)
    }
    pub fn uninstall() {
        astrolabe::verif::set_fs(None);
    }
    pub fn set_content(&self, data: Option<Vec<u8>>) {
        let mut s = self.0.borrow_mut();
        match data {
            Some(d) => {
                s.inodes.push(d);
                s.current = Some(s.inodes.len() - 1);
            }
            None => s.current = None,
        }
    }
    pub fn content(&self) -> Option<Vec<u8>> {
        let s = self.0.borrow();
        s.current.map(|i| s.inodes[i].clone())
    }
    pub fn apply(&self, step: &WriterStep) {
        self.0.borrow_mut().apply(step);
    }
    pub fn fail_next_read(&self, f: ReadFault) {
        self.0.borrow_mut().next_read_fault = Some(f);
    }
    pub fn set_chunk(&self, chunk: usize) {
        self.0.borrow_mut().chunk = chunk;
    }
    pub fn set_interleave(&self, steps: Vec<(usize, WriterStep)>) {
        self.0.borrow_mut().interleave = steps;
    }
    pub fn served_len(&self) -> usize {
        self.0.borrow().served.len()
    }
    pub fn served_at(&self, i: usize) -> Result<Vec<u8>, &'static str> {
        self.0.borrow().served[i].clone()
    }
    pub fn torn_effective(&self) -> u64 {
        self.0.borrow().torn_effective
    }
    pub fn clear_log(&self) {
        let mut s = self.0.borrow_mut();
        s.served.clear();
        s.paths.clear();
    }
    pub fn paths(&self) -> Vec<String> {
        self.0.borrow().paths.clone()
    }
}
