//! Minimal JSON value, writer and parser (no dependencies).

#[derive(Clone, Debug, PartialEq)]
pub enum Json {
    Null,
    Bool(bool),
    Int(i128),
    Float(f64),
    Str(String),
    Arr(Vec<Json>),
    Obj(Vec<(String, Json)>),
}

impl Json {
    pub fn obj() -> Json {
        Json::Obj(Vec::new())
    }
    pub fn set(mut self, k: &str, v: Json) -> Json {
        if let Json::Obj(ref mut o) = self {
            if let Some(slot) = o.iter_mut().find(|(kk, _)| kk == k) {
                slot.1 = v;
            } else {
                o.push((k.to_string(), v));
            }
        }
        self
    }
    pub fn put(&mut self, k: &str, v: Json) {
        if let Json::Obj(ref mut o) = self {
            if let Some(slot) = o.iter_mut().find(|(kk, _)| kk == k) {
                slot.1 = v;
            } else {
                o.push((k.to_string(), v));
            }
        }
    }
    pub fn get(&self, k: &str) -> Option<&Json> {
        match self {
            Json::Obj(o) => o.iter().find(|(kk, _)| kk == k).map(|(_, v)| v),
            _ => None,
        }
    }
    pub fn str(&self) -> Option<&str> {
        match self {
            Json::Str(s) => Some(s),
            _ => None,
        }
    }
    pub fn int(&self) -> Option<i128> {
        match self {
            Json::Int(i) => Some(*i),
            Json::Float(f) if f.fract() == 0.0 => Some(*f as i128),
            _ => None,
        }
    }
    pub fn bool(&self) -> Option<bool> {
        match self {
            Json::Bool(b) => Some(*b),
            _ => None,
        }
    }
    pub fn arr(&self) -> Option<&Vec<Json>> {
        match self {
            Json::Arr(a) => Some(a),
            _ => None,
        }
    }
    pub fn s(v: &str) -> Json {
        Json::Str(v.to_string())
    }
    pub fn i<T: Into<i128>>(v: T) -> Json {
        Json::Int(v.into())
    }
    pub fn u(v: usize) -> Json {
        Json::Int(v as i128)
    }

    pub fn to_string(&self) -> String {
        let mut s = String::new();
        self.write(&mut s, None, 0);
        s
    }
    pub fn pretty(&self) -> String {
        let mut s = String::new();
        self.write(&mut s, Some(1), 0);
        s.push('\n');
        s
    }

    fn write(&self, out: &mut String, indent: Option<usize>, level: usize) {
        match self {
            Json::Null => out.push_str("null"),
            Json::Bool(b) => out.push_str(if *b { "true" } else { "false" }),
            Json::Int(i) => out.push_str(&i.to_string()),
            Json::Float(f) => {
                if f.is_finite() {
                    let s = format!("{}", f);
                    out.push_str(&s);
                    if !s.contains('.') && !s.contains('e') {
                        out.push_str(".0");
                    }
                } else {
                    out.push_str("null")
                }
            }
            Json::Str(s) => write_str(out, s),
            Json::Arr(a) => {
                // arrays of scalars stay on one line
                let scalar = a
                    .iter()
                    .all(|v| !matches!(v, Json::Arr(_) | Json::Obj(_)));
                out.push('[');
                for (i, v) in a.iter().enumerate() {
                    if i > 0 {
                        out.push(',');
                    }
                    if let (Some(n), false) = (indent, scalar) {
                        out.push('\n');
                        for _ in 0..(level + 1) * n {
                            out.push(' ');
                        }
                    }
                    v.write(out, indent, level + 1);
                }
                if let (Some(n), false) = (indent, scalar) {
                    if !a.is_empty() {
                        out.push('\n');
                        for _ in 0..level * n {
                            out.push(' ');
                        }
                    }
                }
                out.push(']');
            }
            Json::Obj(o) => {
                out.push('{');
                for (i, (k, v)) in o.iter().enumerate() {
                    if i > 0 {
                        out.push(',');
                    }
                    if let Some(n) = indent {
                        out.push('\n');
                        for _ in 0..(level + 1) * n {
                            out.push(' ');
                        }
                    }
                    write_str(out, k);
                    out.push(':');
                    if indent.is_some() {
                        out.push(' ');
                    }
                    v.write(out, indent, level + 1);
                }
                if let Some(n) = indent {
                    if !o.is_empty() {
                        out.push('\n');
                        for _ in 0..level * n {
                            out.push(' ');
                        }
                    }
                }
                out.push('}');
            }
        }
    }

    pub fn parse(text: &str) -> Result<Json, String> {
        let mut p = Parser {
            b: text.as_bytes(),
            i: 0,
        };
        p.ws();
        let v = p.value()?;
        p.ws();
        if p.i != p.b.len() {
            return Err(format!("trailing data at {}", p.i));
        }
        Ok(v)
    }
}

fn write_str(out: &mut String, s: &str) {
    out.push('"');
    for c in s.chars() {
        match c {
            '"' => out.push_str("\\\""),
            '\\' => out.push_str("\\\\"),
            '\n' => out.push_str("\\n"),
            '\r' => out.push_str("\\r"),
            '\t' => out.push_str("\\t"),
            c if (c as u32) < 0x20 => out.push_str(&format!("\\u{:04x}", c as u32)),
            c => out.push(c),
        }
    }
    out.push('"');
}

struct Parser<'a> {
    b: &'a [u8],
    i: usize,
}

impl<'a> Parser<'a> {
    fn ws(&mut self) {
        while self.i < self.b.len() && matches!(self.b[self.i], b' ' | b'\n' | b'\r' | b'\t') {
            self.i += 1;
        }
    }
    fn value(&mut self) -> Result<Json, String> {
        if self.i >= self.b.len() {
            return Err("unexpected end".into());
        }
        match self.b[self.i] {
            b'{' => {
                self.i += 1;
                let mut o = Vec::new();
                self.ws();
                if self.peek() == Some(b'}') {
                    self.i += 1;
                    return Ok(Json::Obj(o));
                }
                loop {
                    self.ws();
                    let k = match self.value()? {
                        Json::Str(s) => s,
                        _ => return Err("object key must be a string".into()),
                    };
                    self.ws();
                    if self.peek() != Some(b':') {
                        return Err(format!("expected ':' at {}", self.i));
                    }
                    self.i += 1;
                    self.ws();
                    let v = self.value()?;
                    o.push((k, v));
                    self.ws();
                    match self.peek() {
                        Some(b',') => self.i += 1,
                        Some(b'}') => {
                            self.i += 1;
                            return Ok(Json::Obj(o));
                        }
                        _ => return Err(format!("expected ',' or '}}' at {}", self.i)),
                    }
                }
            }
            b'[' => {
                self.i += 1;
                let mut a = Vec::new();
                self.ws();
                if self.peek() == Some(b']') {
                    self.i += 1;
                    return Ok(Json::Arr(a));
                }
                loop {
                    self.ws();
                    a.push(self.value()?);
                    self.ws();
                    match self.peek() {
                        Some(b',') => self.i += 1,
                        Some(b']') => {
                            self.i += 1;
                            return Ok(Json::Arr(a));
                        }
                        _ => return Err(format!("expected ',' or ']' at {}", self.i)),
                    }
                }
            }
            b'"' => {
                self.i += 1;
                let mut s = String::new();
                loop {
                    if self.i >= self.b.len() {
                        return Err("unterminated string".into());
                    }
                    let c = self.b[self.i];
                    self.i += 1;
                    match c {
                        b'"' => return Ok(Json::Str(s)),
                        b'\\' => {
                            let e = *self.b.get(self.i).ok_or("bad escape")?;
                            self.i += 1;
                            match e {
                                b'n' => s.push('\n'),
                                b'r' => s.push('\r'),
                                b't' => s.push('\t'),
                                b'b' => s.push('\u{8}'),
                                b'f' => s.push('\u{c}'),
                                b'/' => s.push('/'),
                                b'\\' => s.push('\\'),
                                b'"' => s.push('"'),
                                b'u' => {
                                    let h = std::str::from_utf8(
                                        self.b.get(self.i..self.i + 4).ok_or("bad \\u")?,
                                    )
                                    .map_err(|e| e.to_string())?;
                                    let cp = u32::from_str_radix(h, 16).map_err(|e| e.to_string())?;
                                    self.i += 4;
                                    s.push(char::from_u32(cp).unwrap_or('\u{fffd}'));
                                }
                                _ => return Err("bad escape".into()),
                            }
                        }
                        _ => {
                            // copy a full utf-8 sequence
                            let start = self.i - 1;
                            let mut end = self.i;
                            while end < self.b.len() && (self.b[end] & 0xC0) == 0x80 {
                                end += 1;
                            }
                            s.push_str(
                                std::str::from_utf8(&self.b[start..end]).map_err(|e| e.to_string())?,
                            );
                            self.i = end;
                        }
                    }
                }
            }
            b't' if self.b[self.i..].starts_with(b"true") => {
                self.i += 4;
                Ok(Json::Bool(true))
            }
            b'f' if self.b[self.i..].starts_with(b"false") => {
                self.i += 5;
                Ok(Json::Bool(false))
            }
            b'n' if self.b[self.i..].starts_with(b"null") => {
                self.i += 4;
                Ok(Json::Null)
            }
            _ => {
                let start = self.i;
                while self.i < self.b.len()
                    && matches!(self.b[self.i], b'0'..=b'9' | b'-' | b'+' | b'.' | b'e' | b'E')
                {
                    self.i += 1;
                }
                let t = std::str::from_utf8(&self.b[start..self.i]).map_err(|e| e.to_string())?;
                if t.is_empty() {
                    return Err(format!("unexpected byte at {}", start));
                }
                if let Ok(i) = t.parse::<i128>() {
                    Ok(Json::Int(i))
                } else {
                    t.parse::<f64>()
                        .map(Json::Float)
                        .map_err(|e| format!("bad number {:?}: {}", t, e))
                }
            }
        }
    }
    fn peek(&self) -> Option<u8> {
        self.b.get(self.i).copied()
    }
}

pub fn hex(bytes: &[u8]) -> String {
    let mut s = String::with_capacity(bytes.len() * 2);
    for b in bytes {
        s.push_str(&format!("{:02x}", b));
    }
    s
}

pub fn unhex(s: &str) -> Result<Vec<u8>, String> {
    if s.len() % 2 != 0 {
        return Err("odd hex length".into());
    }
    let mut v = Vec::with_capacity(s.len() / 2);
    let b = s.as_bytes();
    for i in (0..b.len()).step_by(2) {
        let h = std::str::from_utf8(&b[i..i + 2]).map_err(|e| e.to_string())?;
        v.push(u8::from_str_radix(h, 16).map_err(|e| e.to_string())?);
    }
    Ok(v)
}
