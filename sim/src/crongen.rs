//! Generators for cron expressions: random from the documented grammar, the exhaustive
//! single-item sub-space, and all single-edit mutations.

use crate::cronmodel::{DOW_NAMES, MONTH_NAMES};
use crate::rng::Rng;

#[derive(Clone, Copy, PartialEq, Debug)]
pub enum Flavor {
    /// One field a near-progression list (a `*/n` set with one element removed, moved or added).
    NearStep,
    /// Many values per field; fires often.
    Dense,
    /// Biased towards sparse day/month fields and long carry chains.
    Sparse,
    /// Anything the grammar allows, lists of 1-4 items in every field.
    Grammar,
}

const LO: [u32; 5] = [0, 0, 1, 1, 0];
const HI: [u32; 5] = [59, 23, 31, 12, 6];

fn mixed_case(rng: &mut Rng, s: &str) -> String {
    match rng.below(4) {
        0 => s.to_string(),
        1 => s.to_ascii_uppercase(),
        2 => {
            let mut c = s.chars();
            let f = c.next().unwrap().to_ascii_uppercase();
            format!("{}{}", f, c.as_str())
        }
        _ => s
            .chars()
            .map(|c| if rng.chance(1, 2) { c.to_ascii_uppercase() } else { c })
            .collect(),
    }
}

fn value(rng: &mut Rng, idx: usize, v: u32, allow_names: bool) -> String {
    if allow_names && rng.chance(1, 3) {
        if idx == 3 {
            return mixed_case(rng, MONTH_NAMES[(v - 1) as usize]);
        }
        if idx == 4 && v <= 6 {
            return mixed_case(rng, DOW_NAMES[v as usize]);
        }
    }
    if idx == 4 && v == 0 && rng.chance(1, 3) {
        return "7".to_string();
    }
    v.to_string()
}

/// One item of a field.
pub fn gen_item(rng: &mut Rng, idx: usize) -> String {
    let (lo, hi) = (LO[idx], HI[idx]);
    match rng.weighted(&[2, 3, 6, 5]) {
        0 => "*".to_string(),
        1 => format!("*/{}", rng.range(1, hi as i64 + 1)),
        2 => {
            let v = rng.range(lo as i64, hi as i64) as u32;
            value(rng, idx, v, true)
        }
        _ => {
            let a = rng.range(lo as i64, hi as i64) as u32;
            let hi_b = if idx == 4 && rng.chance(1, 4) { 7 } else { hi };
            let b = rng.range(a as i64, hi_b as i64) as u32;
            if idx == 4 && b == 7 {
                format!("{}-7", a)
            } else if rng.chance(1, 3) && idx >= 3 {
                // both ends as names (mixed name/number ranges are outside the judged grammar)
                let names: &[&str] = if idx == 3 { &MONTH_NAMES } else { &DOW_NAMES };
                let (ai, bi) = if idx == 3 { (a - 1, b - 1) } else { (a, b) };
                format!(
                    "{}-{}",
                    mixed_case(rng, names[ai as usize]),
                    mixed_case(rng, names[bi as usize])
                )
            } else {
                format!("{}-{}", a, b)
            }
        }
    }
}

fn gen_list(rng: &mut Rng, idx: usize, max_items: u64) -> String {
    let n = 1 + rng.below(max_items);
    let mut items = Vec::new();
    for _ in 0..n {
        items.push(gen_item(rng, idx));
    }
    items.join(",")
}

fn single(rng: &mut Rng, idx: usize) -> String {
    let v = rng.range(LO[idx] as i64, HI[idx] as i64) as u32;
    value(rng, idx, v, true)
}

pub fn gen_expr(rng: &mut Rng, flavor: Flavor) -> String {
    let mut f: [String; 5] = Default::default();
    match flavor {
        Flavor::NearStep => {
            for slot in f.iter_mut() {
                *slot = "*".to_string();
            }
            let idx = rng.weighted(&[4, 4, 1, 1, 1]);
            let s = rng.range(2, ((HI[idx] + 1) / 2) as i64) as u32;
            let l = near_step_list(idx, s, rng.below(4) as u32, rng.below(60) as u32).unwrap_or_else(|| format!("*/{}", s));
            f[idx] = l;
            if idx == 1 && rng.chance(1, 2) {
                f[0] = "0".into();
            }
            if rng.chance(1, 4) {
                let j = rng.usize(5);
                if j != idx {
                    f[j] = gen_list(rng, j, 2);
                }
            }
        }
        Flavor::Grammar => {
            // one expression in twenty has long lists (5-24 items per field)
            // one expression in twenty has long lists: 5-24 items per field, sometimes up to 90
            // (a crontab that spells out its minutes), well beyond any fixed-size buffer
            let max_items = if rng.chance(1, 20) { if rng.chance(1, 3) { 90 } else { 24 } } else { 4 };
            for (i, slot) in f.iter_mut().enumerate() {
                *slot = gen_list(rng, i, max_items);
            }
        }
        Flavor::Dense => {
            for (i, slot) in f.iter_mut().enumerate() {
                *slot = if rng.chance(1, 2) { "*".into() } else { gen_list(rng, i, 3) };
            }
        }
        Flavor::Sparse => {
            // minute, hour
            f[0] = match rng.below(4) {
                0 => "*".into(),
                1 => single(rng, 0),
                2 => format!("*/{}", rng.range(1, 60)),
                _ => gen_list(rng, 0, 3),
            };
            f[1] = match rng.below(4) {
                0 => "*".into(),
                1 => single(rng, 1),
                2 => format!("*/{}", rng.range(1, 24)),
                _ => gen_list(rng, 1, 3),
            };
            // day of month: favour month ends
            f[2] = match rng.below(8) {
                0 | 1 => "*".into(),
                2 => "29".into(),
                3 => "31".into(),
                4 => "30".into(),
                5 => format!("{}", rng.range(28, 31)),
                6 => single(rng, 2),
                _ => gen_list(rng, 2, 2),
            };
            f[3] = match rng.below(8) {
                0 | 1 => "*".into(),
                2 => "2".into(),
                3 => mixed_case(rng, "feb"),
                4 => single(rng, 3),
                5 => "2,4,6,9,11".into(),
                6 => format!("*/{}", rng.range(1, 13)),
                _ => gen_list(rng, 3, 2),
            };
            f[4] = match rng.below(6) {
                0 | 1 | 2 => "*".into(),
                3 => single(rng, 4),
                4 => format!("{}-7", rng.range(0, 7)),
                _ => gen_list(rng, 4, 2),
            };
        }
    }
    let sep = |rng: &mut Rng| -> &'static str {
        match rng.below(12) {
            0 => "\t",
            1 => "  ",
            _ => " ",
        }
    };
    let mut out = String::new();
    for (i, s) in f.iter().enumerate() {
        if i > 0 {
            out.push_str(sep(rng));
        }
        out.push_str(s);
    }
    out
}

fn with_field(idx: usize, item: &str) -> String {
    let mut f = ["*", "*", "*", "*", "*"];
    f[idx] = item;
    f.join(" ")
}

fn case_variants(name: &str) -> Vec<String> {
    let lower = name.to_string();
    let upper = name.to_ascii_uppercase();
    let mut c = name.chars();
    let title = format!("{}{}", c.next().unwrap().to_ascii_uppercase(), c.as_str());
    let alt: String = name
        .chars()
        .enumerate()
        .map(|(i, ch)| if i % 2 == 1 { ch.to_ascii_uppercase() } else { ch })
        .collect();
    vec![lower, upper, title, alt]
}

/// The exhaustive single-item sub-space: for each field every value, every range a<=b, every step
/// 1..=max+1, every name and name range in four case styles, the other four fields `*`.
pub fn exhaustive_single_items() -> Vec<String> {
    let mut out = Vec::new();
    for idx in 0..5 {
        let (lo, hi) = (LO[idx], HI[idx]);
        out.push(with_field(idx, "*"));
        let vhi = if idx == 4 { 7 } else { hi };
        for v in lo..=vhi {
            out.push(with_field(idx, &v.to_string()));
        }
        for a in lo..=vhi {
            for b in a..=vhi {
                out.push(with_field(idx, &format!("{}-{}", a, b)));
            }
        }
        for s in 1..=hi + 1 {
            out.push(with_field(idx, &format!("*/{}", s)));
        }
        if idx >= 3 {
            let names: &[&str] = if idx == 3 { &MONTH_NAMES } else { &DOW_NAMES };
            for n in names {
                for v in case_variants(n) {
                    out.push(with_field(idx, &v));
                }
            }
            for a in 0..names.len() {
                for b in a..names.len() {
                    let av = case_variants(names[a]);
                    let bv = case_variants(names[b]);
                    for k in 0..4 {
                        out.push(with_field(idx, &format!("{}-{}", av[k], bv[(k + a + b) % 4])));
                    }
                }
            }
        }
    }
    out
}

/// Second exhaustive sub-space: every pair of single values per field (lists of two), and every
/// (day-of-month, day-of-week) combination with both day fields given (the OR rule), other fields `*`.
pub fn exhaustive_pairs() -> Vec<String> {
    let mut out = Vec::new();
    for idx in 0..5 {
        let (lo, hi) = (LO[idx], HI[idx]);
        let vhi = if idx == 4 { 7 } else { hi };
        for a in lo..=vhi {
            for b in a + 1..=vhi {
                out.push(with_field(idx, &format!("{},{}", a, b)));
            }
        }
    }
    for d in 1..=31u32 {
        for w in 0..=7u32 {
            out.push(format!("* * {} * {}", d, w));
        }
    }
    // a range next to a step in one list, per field (overlapping items)
    for idx in 0..5 {
        let (lo, hi) = (LO[idx], HI[idx]);
        for s in [2u32, 3, 5, 7] {
            if s <= hi + 1 {
                out.push(with_field(idx, &format!("{}-{},*/{}", lo, (lo + hi) / 2, s)));
                out.push(with_field(idx, &format!("*/{},{}", s, hi)));
            }
        }
    }
    out
}

/// Third family: numerals and tokens at the edges of what a field can hold, in every syntactic
/// position (single value, either range end, step, list item), other fields `*`.
pub fn boundary_numerics() -> Vec<String> {
    let toks = [
        "0", "1", "6", "7", "8", "12", "13", "23", "24", "31", "32", "59", "60", "61", "99", "100", "127", "128", "255", "256", "257", "260", "300", "511",
        "512", "1000", "65535", "65536", "4294967295", "4294967296", "18446744073709551616", "-1", "+1", "1.0", "0x1", "1e1", "١", "１",
    ];
    let mut out = Vec::new();
    for idx in 0..5 {
        let lo = LO[idx];
        let hi = HI[idx];
        for t in toks {
            out.push(with_field(idx, t));
            out.push(with_field(idx, &format!("{}-{}", lo, t)));
            out.push(with_field(idx, &format!("{}-{}", t, hi)));
            out.push(with_field(idx, &format!("*/{}", t)));
            out.push(with_field(idx, &format!("{},{}", lo, t)));
            out.push(with_field(idx, &format!("{},{}", t, hi)));
        }
    }
    // the same tokens inside expressions of one uniform shape (a fast path for "five plain
    // numbers" or "all names" would only be taken there)
    let shapes: [[&str; 5]; 4] = [["30", "4", "1", "1", "0"], ["0", "0", "31", "12", "7"], ["59", "23", "15", "jan", "mon"], ["5", "5", "5", "DEC", "SAT"]];
    for shape in shapes {
        for idx in 0..5 {
            for t in toks {
                let mut f = shape;
                f[idx] = t;
                out.push(f.join(" "));
            }
        }
        out.push(shape.join(" "));
    }
    // names: prefixes, extensions, look-alikes that only differ after Unicode case mapping
    for (idx, names) in [(3usize, &MONTH_NAMES[..]), (4usize, &DOW_NAMES[..])] {
        for n in names {
            let full = match (idx, *n) {
                (3, "jan") => "january",
                (3, "sep") => "sept",
                (4, "sun") => "sunday",
                (4, "thu") => "thurs",
                _ => "",
            };
            for v in [n[..2].to_string(), format!("{}x", n), format!("{}.", n), format!(" {}", n), full.to_string(), n.replace('s', "ſ"), n.replace('i', "ı"), n.replace('k', "\u{212a}")] {
                if !v.is_empty() && v != *n {
                    out.push(with_field(idx, &v));
                    out.push(with_field(idx, &format!("{}-{}", v, v)));
                }
            }
        }
        // a name of the other field
        out.push(with_field(idx, if idx == 3 { "mon" } else { "jan" }));
    }
    out
}

/// A look-alike of `expr` with the same non-blank characters but one field boundary moved by one
/// character and a different amount of white space (`5 12 * * *` -> `51  2 * * *`). Whether it is
/// valid is for the reference to say. `None` if no boundary can be moved.
pub fn boundary_shifted(rng: &mut Rng, expr: &str) -> Option<String> {
    let fields: Vec<String> = expr.split_whitespace().map(|s| s.to_string()).collect();
    if fields.len() != 5 {
        return None;
    }
    let mut order: Vec<usize> = (0..4).collect();
    for i in (1..order.len()).rev() {
        let j = rng.usize(i + 1);
        order.swap(i, j);
    }
    for i in order {
        let mut f = fields.clone();
        let left_to_right = rng.chance(1, 2);
        for dir in [left_to_right, !left_to_right] {
            let mut g = f.clone();
            if dir && g[i].chars().count() >= 2 {
                let c = g[i].pop().unwrap();
                g[i + 1].insert(0, c);
            } else if !dir && g[i + 1].chars().count() >= 2 {
                let c = g[i + 1].remove(0);
                g[i].push(c);
            } else {
                continue;
            }
            f = g;
            // different length: one separator doubled
            let dbl = rng.usize(4);
            let mut out = String::new();
            for (k, fld) in f.iter().enumerate() {
                if k > 0 {
                    out.push_str(if k - 1 == dbl { "  " } else { " " });
                }
                out.push_str(fld);
            }
            return Some(out);
        }
    }
    None
}

/// Long lists: every value of a field spelled out (in order, reversed, with duplicates), and the
/// same with an invalid or out-of-range item at the very end (validation must reach the end).
pub fn long_list_family() -> Vec<String> {
    let mut out = Vec::new();
    for idx in 0..5 {
        let (lo, hi) = (LO[idx], HI[idx]);
        let all: Vec<String> = (lo..=hi).map(|v| v.to_string()).collect();
        let mut rev = all.clone();
        rev.reverse();
        let twice: Vec<String> = all.iter().chain(all.iter()).cloned().collect();
        let evens: Vec<String> = (lo..=hi).filter(|v| v % 2 == 0).map(|v| v.to_string()).collect();
        let evens3: Vec<String> = evens.iter().chain(evens.iter()).chain(evens.iter()).cloned().collect();
        for l in [&all, &rev, &twice, &evens, &evens3] {
            let joined = l.join(",");
            out.push(with_field(idx, &joined));
            for tail in [format!("{}", hi + 1), "x".to_string(), "".to_string(), "*/0".to_string(), format!("{}-{}", hi, lo)] {
                out.push(with_field(idx, &format!("{},{}", joined, tail)));
            }
        }
    }
    // a long expression overall: every field spelled out (several hundred bytes)
    let full: Vec<String> = (0..5).map(|idx| (LO[idx]..=HI[idx]).map(|v| v.to_string()).collect::<Vec<_>>().join(",")).collect();
    out.push(full.join(" "));
    let mut odd = full.clone();
    odd[4] = "1,2,3,4,5,6".into();
    out.push(odd.join(" "));
    out
}

/// One near-progression list for field `idx`: the value set of `*/s` with one element removed,
/// moved or added, written out as a comma list (what a "this is really */n" fast path would
/// have to tell apart from the real thing).
pub fn near_step_list(idx: usize, s: u32, variant: u32, k: u32) -> Option<String> {
    let (lo, hi) = (LO[idx], HI[idx]);
    let mut vals: Vec<u32> = (lo..=hi).step_by(s as usize).collect();
    if vals.len() < 2 {
        return None;
    }
    let pos = (k as usize) % vals.len();
    match variant % 4 {
        0 => {
            vals.remove(pos);
        }
        1 => {
            // move one element off the grid
            let v = vals[pos];
            let nv = if v + 1 <= hi && !vals.contains(&(v + 1)) { v + 1 } else if v > lo && !vals.contains(&(v - 1)) { v - 1 } else { return None };
            vals[pos] = nv;
        }
        2 => {
            // add one element off the grid
            let v = vals[pos];
            if v + 1 <= hi && !vals.contains(&(v + 1)) {
                vals.push(v + 1);
            } else {
                return None;
            }
        }
        _ => {
            // swap-distance change: move an element by half a step (keeps count, first and last)
            if pos == 0 || pos + 1 == vals.len() || s < 4 {
                return None;
            }
            vals[pos] += s / 2;
        }
    }
    vals.sort_unstable();
    vals.dedup();
    Some(vals.iter().map(|v| v.to_string()).collect::<Vec<_>>().join(","))
}

/// Fourth family: near-progression lists in one field, the others `*`, for every step and every
/// position (bounded per field).
pub fn near_step_family() -> Vec<String> {
    let mut out = Vec::new();
    for idx in 0..5 {
        let hi = HI[idx];
        for s in 2..=(hi + 1) / 2 {
            let n = (hi - LO[idx]) / s + 1;
            for variant in 0..4 {
                for k in 0..n.min(8) {
                    if let Some(l) = near_step_list(idx, s, variant, k * n.max(8) / 8) {
                        out.push(with_field(idx, &l));
                        if idx <= 1 {
                            // the classic "every n minutes/hours on the hour" shapes
                            let mut f = ["*", "*", "*", "*", "*"];
                            f[idx] = &l;
                            if idx == 1 {
                                f[0] = "0";
                            }
                            out.push(f.join(" "));
                        }
                    }
                }
            }
        }
    }
    out.sort();
    out.dedup();
    out
}

pub const MUT_ALPHABET: &[char] = &[
    '0', '1', '2', '3', '5', '7', '9', '*', '/', ',', '-', '+', ' ', '\t', 'a', 'j', 'n', 's', 'u',
    'z', 'A', 'M', 'é', '.',
];

/// All single-edit mutations (delete, replace, insert over `MUT_ALPHABET`) of `expr`.
pub fn single_edit_mutants(expr: &str) -> Vec<String> {
    let chars: Vec<char> = expr.chars().collect();
    let mut out = Vec::new();
    for i in 0..chars.len() {
        // delete
        let mut d = chars.clone();
        d.remove(i);
        out.push(d.iter().collect());
        // replace
        for &c in MUT_ALPHABET {
            if c != chars[i] {
                let mut r = chars.clone();
                r[i] = c;
                out.push(r.iter().collect());
            }
        }
    }
    for i in 0..=chars.len() {
        for &c in MUT_ALPHABET {
            let mut r = chars.clone();
            r.insert(i, c);
            out.push(r.iter().collect());
        }
    }
    out
}
