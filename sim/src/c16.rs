//! C16 engine: what a cron expression denotes, read back through the clock-driven iterator.
//!
//! The parsed value sets are private; the only observation is which minutes the iterator yields.
//! The simulation contributes the clock seam and the membership probe built on it.

use crate::cal;
use crate::crongen::{self, Flavor};
use crate::cronmodel::{self, Sets, Verdict, HORIZON_DAYS};
use crate::json::Json;
use crate::report::{fnv, Stats, Violation};
use crate::rng::{self, Rng};
use crate::world::{guarded, Instant, PanicInfo, SimClock};
use astrolabe::errors::AstrolabeError;
use astrolabe::{CronSchedule, DateUtilities};

#[derive(Clone, Debug)]
pub struct Fail {
    pub invariant: &'static str,
    pub observed: String,
    pub expected: String,
    pub probe_minute: Option<i64>,
    pub delta_ns: u64,
    pub panic: Option<PanicInfo>,
}

#[derive(Clone, Copy)]
pub struct Budget {
    /// Number of day probes in the day sweep (0 = skip); `full_days` sweeps 28 years instead.
    pub day_probes: u32,
    pub full_days: bool,
    pub daemon_steps: u32,
}

pub const LIGHT: Budget = Budget { day_probes: 40, full_days: false, daemon_steps: 0 };
pub const QUICK: Budget = Budget { day_probes: 400, full_days: false, daemon_steps: 12 };
pub const FULL: Budget = Budget { day_probes: 0, full_days: true, daemon_steps: 30 };

enum RealParse {
    Ok,
    ErrInvalidFormat(String),
    ErrOther(String),
    Panic(PanicInfo),
}

fn real_parse(expr: &str, via_fromstr: bool) -> RealParse {
    let e = expr.to_string();
    let out = guarded(move || {
        if via_fromstr {
            e.parse::<CronSchedule>().map(|_| ())
        } else {
            CronSchedule::parse(&e).map(|_| ())
        }
    });
    match out.result {
        Ok(Ok(())) => RealParse::Ok,
        Ok(Err(AstrolabeError::InvalidFormat(f))) => RealParse::ErrInvalidFormat(f.to_string()),
        Ok(Err(other)) => RealParse::ErrOther(other.to_string()),
        Err(p) => RealParse::Panic(p),
    }
}

/// The membership probe: does the schedule fire at whole minute `x` (minutes since the epoch)?
/// Fresh schedule, clock pinned inside the minute before `x`, one `next()`.
fn fires(clock: &SimClock, expr: &str, x: i64, delta_ns: u64) -> Result<(bool, i64), PanicInfo> {
    let t = Instant::new(((x - 1) * 60) as u64, 0).add_ns(delta_ns as u128);
    clock.set(t);
    let e = expr.to_string();
    // both entry points must denote the same sets: alternate between them
    let via_fromstr = delta_ns % 2 == 1;
    let out = guarded(move || {
        let mut s = if via_fromstr { e.parse::<CronSchedule>().expect("accepted a moment ago") } else { CronSchedule::parse(&e).expect("accepted a moment ago") };
        s.next().map(|d| d.timestamp())
    });
    match out.result {
        Ok(Some(ts)) => Ok((ts == x * 60, ts)),
        Ok(None) => Ok((false, i64::MIN)),
        Err(p) => Err(p),
    }
}

/// Decides one expression. Deterministic in (expr, probe_seed, budget).
pub fn check_expr(expr: &str, probe_seed: u64, budget: Budget, stats: &mut Option<&mut Stats>) -> Result<(), Fail> {
    let verdict = cronmodel::reference_parse(expr);
    let fail = |inv: &'static str, obs: String, exp: String, p: Option<PanicInfo>| Fail {
        invariant: inv,
        observed: obs,
        expected: exp,
        probe_minute: None,
        delta_ns: 0,
        panic: p,
    };
    for via_fromstr in [false, true] {
        let how = if via_fromstr { "str::parse::<CronSchedule>" } else { "CronSchedule::parse" };
        let real = real_parse(expr, via_fromstr);
        match (&verdict, real) {
            (_, RealParse::Panic(p)) => {
                return Err(fail("P0-panic", format!("{} panicked: {}", how, p.msg), "Ok or Err(InvalidFormat)".into(), Some(p)))
            }
            (Verdict::Accept(_), RealParse::Ok) => {}
            (Verdict::Accept(s), RealParse::ErrInvalidFormat(m)) | (Verdict::Accept(s), RealParse::ErrOther(m)) => {
                return Err(fail(
                    "P1-accept",
                    format!("{} -> Err({})", how, m),
                    format!("Ok: the documented grammar accepts it, denoting {}", s.describe()),
                    None,
                ))
            }
            (Verdict::Reject(_), RealParse::ErrInvalidFormat(_)) => {}
            (Verdict::Reject(r), RealParse::ErrOther(m)) => {
                return Err(fail("P3-error-kind", format!("{} -> Err({}) of another kind", how, m), format!("Err(InvalidFormat) ({})", r), None))
            }
            (Verdict::Reject(r), RealParse::Ok) => {
                return Err(fail("P2-reject", format!("{} -> Ok", how), format!("Err(InvalidFormat): {}", r), None))
            }
            (Verdict::Undetermined(_), _) => {}
        }
    }
    let sets = match verdict {
        Verdict::Accept(s) => s,
        Verdict::Reject(_) => {
            if let Some(s) = stats.as_deref_mut() {
                s.inc("c16.verdict.reject");
            }
            return Ok(());
        }
        Verdict::Undetermined(why) => {
            if let Some(s) = stats.as_deref_mut() {
                s.inc("c16.unjudged.undetermined_by_documentation");
                let class = why.split(':').nth(1).unwrap_or(&why).trim().split(' ').take(3).collect::<Vec<_>>().join("_");
                s.inc(&format!("c16.unjudged.kind.{}", class));
            }
            return Ok(());
        }
    };
    if let Some(s) = stats.as_deref_mut() {
        s.inc("c16.verdict.accept");
    }
    if !sets.satisfiable() {
        if let Some(s) = stats.as_deref_mut() {
            s.inc("c16.reach.valid_but_never_fires(parse_only)");
        }
        return Ok(());
    }
    // ---- read the denoted sets back through the clock ----
    let mut rng = Rng::new(probe_seed ^ fnv(expr.as_bytes()));
    let clock = SimClock::install(Instant::new(0, 0));
    let r = membership(&clock, expr, &sets, &mut rng, budget, stats);
    SimClock::uninstall();
    r
}

fn membership(
    clock: &SimClock,
    expr: &str,
    sets: &Sets,
    rng: &mut Rng,
    budget: Budget,
    stats: &mut Option<&mut Stats>,
) -> Result<(), Fail> {
    let limit_min = crate::cronsim::LIMIT_SECS as i64 / 60;
    let base0 = rng.range(0, limit_min - 30 * 366 * 1440);
    let b = sets.next_after(base0, HORIZON_DAYS).expect("satisfiable");
    let mut probes: Vec<i64> = Vec::new();
    let b_day = b.div_euclid(1440);
    let b_mod = b.rem_euclid(1440);
    // minutes of B's hour; hours of B's day
    for i in 0..60 {
        probes.push(b - b_mod % 60 + i);
    }
    for h in 0..24 {
        probes.push(b_day * 1440 + h * 60 + b_mod % 60);
    }
    // months: for each month of the following year, one day matching the day rule and one random
    let (by, _, _) = cal::civil_from_days(b_day);
    for m in 1..=12u32 {
        let dim = cal::days_in_month(by + 1, m);
        let mut picked = false;
        for d in 1..=dim {
            let day = cal::days_from_civil(by + 1, m, d);
            if sets.day_matches(d, cal::weekday_from_days(day)) {
                probes.push(day * 1440 + b_mod);
                picked = true;
                break;
            }
        }
        if !picked || rng.chance(1, 2) {
            let d = rng.range(1, dim as i64) as u32;
            probes.push(cal::days_from_civil(by + 1, m, d) * 1440 + b_mod);
        }
    }
    // days: the whole day rule (this is how day-of-month and day-of-week sets are observable)
    let y0 = by + 1;
    if budget.full_days {
        let start = cal::days_from_civil(y0, 1, 1);
        let end = cal::days_from_civil(y0 + 28, 1, 1);
        for day in start..end {
            probes.push(day * 1440 + b_mod);
        }
    } else if budget.day_probes > 0 {
        let start = cal::days_from_civil(y0, 1, 1);
        let span = 28 * 365 + 7;
        // a contiguous stretch (62 days from a random point) plus random days
        let s0 = start + rng.range(0, span - 63);
        for day in s0..s0 + (budget.day_probes as i64).min(62) {
            probes.push(day * 1440 + b_mod);
        }
        for _ in 0..budget.day_probes.saturating_sub(62) {
            probes.push((start + rng.range(0, span - 1)) * 1440 + b_mod);
        }
    }
    let mut n_pos = 0u64;
    let mut n_neg = 0u64;
    for x in probes {
        // the probe pins the clock inside minute x-1: the simulated clock cannot be before 1970
        if x < 1 {
            continue;
        }
        let delta = match rng.below(4) {
            0 => 0,
            1 => 59_999_999_999,
            _ => rng.below(60_000_000_000),
        };
        let want = sets.matches_minute(x);
        match fires(clock, expr, x, delta) {
            Err(p) => {
                return Err(Fail {
                    invariant: "P0-panic",
                    observed: format!("next() panicked: {}", p.msg),
                    expected: "an instant".into(),
                    probe_minute: Some(x),
                    delta_ns: delta,
                    panic: Some(p),
                })
            }
            Ok((got, ts)) => {
                if got != want {
                    return Err(Fail {
                        invariant: "M1-membership",
                        observed: format!(
                            "with the clock inside the minute before {}, next() = {} ({}): the schedule {} at that minute",
                            cal::fmt_unix(x * 60),
                            ts,
                            if ts == i64::MIN { "None".to_string() } else { cal::fmt_unix(ts) },
                            if got { "fires" } else { "does not fire" }
                        ),
                        expected: format!(
                            "{} - the expression denotes {}",
                            if want { "fires" } else { "does not fire" },
                            sets.describe()
                        ),
                        probe_minute: Some(x),
                        delta_ns: delta,
                        panic: None,
                    });
                }
                if want {
                    n_pos += 1
                } else {
                    n_neg += 1
                }
            }
        }
    }
    if let Some(s) = stats.as_deref_mut() {
        s.add("c16.probes.member", n_pos);
        s.add("c16.probes.non_member", n_neg);
    }
    // daemon history: sleep until the returned instant, wake with jitter < 60 s, fire, repeat
    // two daemon runs: one from around the base instant, one that starts a few firings before the
    // end of a matching day that is followed by a non-matching day (or month): the iterator has to
    // carry across the gap while continuing from its own previous result
    let mut daemon_starts: Vec<i64> = Vec::new();
    if budget.daemon_steps > 0 {
        daemon_starts.push(b - 1 - rng.range(0, 3000));
        let b_day0 = b.div_euclid(1440);
        for day in b_day0..b_day0 + 400 {
            let (_, mo, d) = cal::civil_from_days(day);
            let (_, mo2, d2) = cal::civil_from_days(day + 1);
            let m1 = sets.mon >> mo & 1 == 1 && sets.day_matches(d, cal::weekday_from_days(day));
            let m2 = sets.mon >> mo2 & 1 == 1 && sets.day_matches(d2, cal::weekday_from_days(day + 1));
            if m1 && !m2 {
                // last firing of that day, then back up a few firings' worth of minutes
                let last_h = 31 - sets.hour.leading_zeros() as i64;
                let last_m = 63 - sets.min.leading_zeros() as i64;
                let last = day * 1440 + last_h * 60 + last_m;
                daemon_starts.push(last - 1 - rng.range(0, 4));
                break;
            }
        }
    }
    for start_min in daemon_starts {
        clock.set(Instant::new((start_min.max(0) * 60) as u64, rng.below(1_000_000_000) as u32));
        let e = expr.to_string();
        let steps = budget.daemon_steps;
        let jit: Vec<u64> = (0..steps).map(|_| rng.below(60_000_000_000)).collect();
        let clock2 = clock.clone();
        let out = guarded(move || {
            let mut s = CronSchedule::parse(&e).expect("accepted a moment ago");
            let mut fired = Vec::new();
            for j in jit {
                match s.next() {
                    Some(d) => {
                        let ts = d.timestamp();
                        fired.push(ts);
                        if ts < 0 || ts as u64 >= crate::cronsim::LIMIT_SECS + 13 * 366 * 86400 {
                            break;
                        }
                        clock2.set(Instant::new(ts as u64, 0).add_ns(j as u128));
                    }
                    None => {
                        fired.push(i64::MIN);
                        break;
                    }
                }
            }
            fired
        });
        match out.result {
            Err(p) => {
                return Err(Fail {
                    invariant: "P0-panic",
                    observed: format!("daemon loop panicked: {}", p.msg),
                    expected: "instants".into(),
                    probe_minute: None,
                    delta_ns: 0,
                    panic: Some(p),
                })
            }
            Ok(fired) => {
                let want: Vec<i64> = {
                    let mut v = Vec::new();
                    let mut m = start_min.max(0);
                    for _ in 0..fired.len() {
                        match sets.next_after(m, HORIZON_DAYS) {
                            Some(n) => {
                                v.push(n * 60);
                                m = n;
                            }
                            None => break,
                        }
                    }
                    v
                };
                if fired != want {
                    let k = fired.iter().zip(want.iter()).position(|(a, b)| a != b).unwrap_or(0);
                    return Err(Fail {
                        invariant: "M2-daemon-history",
                        observed: format!("firing #{} at {}", k, fired.get(k).map(|t| cal::fmt_unix(*t)).unwrap_or_default()),
                        expected: format!("{}", want.get(k).map(|t| cal::fmt_unix(*t)).unwrap_or_default()),
                        probe_minute: Some(start_min),
                        delta_ns: 0,
                        panic: None,
                    });
                }
                if let Some(s) = stats.as_deref_mut() {
                    s.add("c16.daemon_firings_checked", fired.len() as u64);
                }
            }
        }
    }
    Ok(())
}

// ------------------------------------------------------------------------------------------------

fn minimise(expr: &str, probe_seed: u64, budget: Budget, fail: &Fail) -> (String, Fail) {
    let mut best = expr.to_string();
    let mut best_fail = fail.clone();
    let same = |e: &str| -> Option<Fail> {
        match check_expr(e, probe_seed, budget, &mut None) {
            Err(f) if f.invariant == fail.invariant => Some(f),
            _ => None,
        }
    };
    loop {
        let fields: Vec<String> = best.split_whitespace().map(|s| s.to_string()).collect();
        if fields.len() != 5 {
            break;
        }
        let mut progressed = false;
        'outer: for i in 0..5 {
            let mut cands: Vec<String> = Vec::new();
            if fields[i] != "*" {
                cands.push("*".into());
            }
            let items: Vec<&str> = fields[i].split(',').collect();
            if items.len() > 1 {
                for it in &items {
                    cands.push(it.to_string());
                }
            }
            for cand in cands {
                let mut f2 = fields.clone();
                f2[i] = cand;
                let e2 = f2.join(" ");
                if let Some(f) = same(&e2) {
                    best = e2;
                    best_fail = f;
                    progressed = true;
                    break 'outer;
                }
            }
        }
        if !progressed {
            let canon = fields.join(" ");
            if canon != best {
                if let Some(f) = same(&canon) {
                    best = canon;
                    best_fail = f;
                    continue;
                }
            }
            break;
        }
    }
    (best, best_fail)
}

fn normal_form(expr: &str) -> String {
    // finding key: the minimised expression with names folded to lower case
    expr.to_ascii_lowercase()
}

fn budget_json(j: Json, b: Budget) -> Json {
    j.set("budget_day_probes", Json::Int(b.day_probes as i128))
        .set("budget_full_days", Json::Bool(b.full_days))
        .set("budget_daemon_steps", Json::Int(b.daemon_steps as i128))
}

fn budget_from(doc: &Json) -> Budget {
    Budget {
        day_probes: doc.get("budget_day_probes").and_then(|v| v.int()).unwrap_or(40) as u32,
        full_days: doc.get("budget_full_days").and_then(|v| v.bool()).unwrap_or(false),
        daemon_steps: doc.get("budget_daemon_steps").and_then(|v| v.int()).unwrap_or(0) as u32,
    }
}

#[allow(clippy::too_many_arguments)]
fn violation(seed: u64, run: u64, source: &str, expr: &str, probe_seed: u64, budget: Budget, f: &Fail, history: &[(String, Budget)]) -> Violation {
    let (me, mf) = minimise(expr, probe_seed, budget, f);
    // the complete history of this work item: everything decided before on the same schedule of calls
    let full = budget_json(
        Json::obj()
            .set("property", Json::s("C16"))
            .set("engine", Json::s("c16"))
            .set("invariant", Json::s(f.invariant))
            .set("seed", Json::Int(seed as i128))
            .set("run", Json::Int(run as i128))
            .set("source", Json::s(source))
            .set("history", Json::Arr(history.iter().skip(history.len().saturating_sub(1500)).map(|(e, b)| budget_json(Json::obj().set("expr", Json::s(e)), *b)).collect()))
            .set("expr", Json::s(expr))
            .set("probe_seed", Json::Int(probe_seed as i128))
            .set("observed", Json::s(&f.observed))
            .set("expected", Json::s(&f.expected)),
        budget,
    );
    let key = match &mf.panic {
        Some(p) => format!("{}:{}", mf.invariant, p.key()),
        None => format!("{}:expr={}", mf.invariant, normal_form(&me)),
    };
    Violation {
        property: "C16",
        invariant: mf.invariant.to_string(),
        key,
        what: format!("{:?}: observed {} ; expected {}", me, mf.observed, mf.expected),
        run,
        replay: Json::obj()
            .set("property", Json::s("C16"))
            .set("engine", Json::s("c16"))
            .set("invariant", Json::s(mf.invariant))
            .set("seed", Json::Int(seed as i128))
            .set("run", Json::Int(run as i128))
            .set("source", Json::s(source))
            .set("expr", Json::s(&me))
            .set("original_expr", Json::s(expr))
            .set("probe_seed", Json::Int(probe_seed as i128))
            .set("budget_day_probes", Json::Int(budget.day_probes as i128))
            .set("budget_full_days", Json::Bool(budget.full_days))
            .set("budget_daemon_steps", Json::Int(budget.daemon_steps as i128))
            .set("probe_minute", mf.probe_minute.map(|m| Json::Int(m as i128)).unwrap_or(Json::Null))
            .set("probe_utc", mf.probe_minute.map(|m| Json::s(&cal::fmt_unix(m * 60))).unwrap_or(Json::Null))
            .set("delta_ns", Json::Int(mf.delta_ns as i128))
            .set("observed", Json::s(&mf.observed))
            .set("expected", Json::s(&mf.expected))
            .set(
                "panic",
                match &mf.panic {
                    Some(p) => Json::obj().set("msg", Json::s(&p.msg)).set("at", Json::s(&format!("{}:{}", p.file, p.line))),
                    None => Json::Null,
                },
            ),
        replay_full: Some(full),
    }
}

/// The work list of a tier: (source tag, expression, budget).
fn work_item(tier: &str, seed: u64, idx: u64, exhaustive: &[String], n_random: u64, n_bases: u64) -> Vec<(String, String, Budget)> {
    let thorough = tier != "quick";
    let n_ex = exhaustive.len() as u64;
    if idx < n_ex {
        let b = if thorough { FULL } else { QUICK };
        return vec![("exhaustive-single-item".into(), exhaustive[idx as usize].clone(), b)];
    }
    let idx2 = idx - n_ex;
    if idx2 < n_random {
        let mut rng = Rng::new(rng::run_seed(seed, "C16-random", idx2));
        let flavor = if rng.chance(1, 4) { Flavor::Sparse } else { Flavor::Grammar };
        let e = crongen::gen_expr(&mut rng, flavor);
        let mut v = vec![("random-grammar".to_string(), e.clone(), QUICK)];
        // the same characters with a field boundary moved, decided right after the original and
        // followed by the original again (field boundaries must matter, whatever was parsed before)
        if let Some(sh) = crongen::boundary_shifted(&mut rng, &e) {
            v.push(("boundary-shifted-look-alike".to_string(), sh, LIGHT));
            v.push(("random-grammar-again".to_string(), e, LIGHT));
        }
        return v;
    }
    let idx3 = idx2 - n_random;
    if idx3 < n_bases {
        let mut rng = Rng::new(rng::run_seed(seed, "C16-mutbase", idx3));
        let flavor = match rng.below(3) {
            0 => Flavor::Sparse,
            1 => Flavor::Dense,
            _ => Flavor::Grammar,
        };
        // (all single edits of an expression with 90-item lists would be a hundred thousand
        // kilobyte-long strings: mutation bases are ordinary crontab-sized lines)
        let mut base = crongen::gen_expr(&mut rng, flavor);
        while base.len() > 80 {
            base = crongen::gen_expr(&mut rng, flavor);
        }
        let mut v = vec![("mutation-base".to_string(), base.clone(), LIGHT)];
        for m in crongen::single_edit_mutants(&base) {
            v.push(("single-edit-mutant".into(), m, LIGHT));
        }
        return v;
    }
    Vec::new()
}

pub fn check(tier: &str, seed: u64) -> i32 {
    let t0 = std::time::Instant::now();
    let n_single = crongen::exhaustive_single_items().len();
    let mut exhaustive = crongen::exhaustive_single_items();
    exhaustive.extend(crongen::exhaustive_pairs());
    exhaustive.extend(crongen::boundary_numerics());
    exhaustive.extend(crongen::near_step_family());
    exhaustive.extend(crongen::long_list_family());
    let (n_random, n_bases): (u64, u64) = match tier {
        "quick" => (2_000, 200),
        _ => (100_000, 20_000),
    };
    let n_random = std::env::var("VERIF_C16_RANDOM").ok().and_then(|v| v.parse().ok()).unwrap_or(n_random);
    let n_bases = std::env::var("VERIF_C16_BASES").ok().and_then(|v| v.parse().ok()).unwrap_or(n_bases);
    let total = exhaustive.len() as u64 + n_random + n_bases;
    let ex = &exhaustive;
    let mut stats = crate::runner::run_parallel(
        total,
        |idx, stats| {
            let items = work_item(tier, seed, idx, ex, n_random, n_bases);
            let mut history: Vec<(String, Budget)> = Vec::new();
            for (k, (source, expr, budget)) in items.iter().enumerate() {
                stats.inc("c16.expressions");
                stats.inc(&format!("c16.source.{}", source));
                stats.note("c16.distinct_expr", fnv(expr.as_bytes()));
                let probe_seed = rng::run_seed(seed, "C16-probe", idx);
                crate::report::inflight_note(|| {
                    Json::obj()
                        .set("property", Json::s("C16"))
                        .set("engine", Json::s("c16"))
                        .set("invariant", Json::s("process-death"))
                        .set("seed", Json::Int(seed as i128))
                        .set("run", Json::Int(idx as i128))
                        .set("expr", Json::s(expr))
                        .set("probe_seed", Json::Int(probe_seed as i128))
                        .set("budget_day_probes", Json::Int(budget.day_probes as i128))
                        .set("budget_full_days", Json::Bool(budget.full_days))
                        .set("budget_daemon_steps", Json::Int(budget.daemon_steps as i128))
                        .set("observed", Json::s("the process died while deciding this expression"))
                });
                let before_accept = stats.get("c16.verdict.accept");
                let r = check_expr(expr, probe_seed, *budget, &mut Some(&mut *stats));
                if stats.get("c16.verdict.accept") > before_accept {
                    stats.note("c16.distinct_accepted", fnv(expr.as_bytes()));
                    if source == "single-edit-mutant" {
                        stats.inc("c16.reach.mutant_still_valid");
                    }
                    reach(expr, stats);
                }
                if let Err(f) = r {
                    stats.violations.push(violation(seed, idx, source, expr, probe_seed, *budget, &f, &history));
                }
                history.push((expr.clone(), *budget));
                if idx % 997 == 0 && k == 0 && idx < 997 * 6 {
                    stats.samples.push((
                        idx,
                        Json::obj()
                            .set("source", Json::s(source))
                            .set("expr", Json::s(expr))
                            .set("reference", Json::s(&match cronmodel::reference_parse(expr) {
                                Verdict::Accept(s) => format!("accept: {}", s.describe()),
                                Verdict::Reject(r) => format!("reject: {}", r),
                                Verdict::Undetermined(u) => format!("undetermined: {}", u),
                            })),
                    ));
                }
            }
        },
        |idx| {
            let items = work_item(tier, seed, idx, ex, n_random, n_bases);
            let doc = Json::obj()
                .set("property", Json::s("C16"))
                .set("engine", Json::s("c16"))
                .set("invariant", Json::s("P0-hang"))
                .set("seed", Json::Int(seed as i128))
                .set("run", Json::Int(idx as i128))
                .set("exprs", Json::Arr(items.iter().map(|(_, e, _)| Json::s(e)).collect()))
                .set("probe_seed", Json::Int(rng::run_seed(seed, "C16-probe", idx) as i128))
                .set("tier", Json::s(tier));
            crate::cronsim::hang_report("C16", seed, idx, doc);
        },
    );
    let wall = t0.elapsed().as_secs_f64();
    let mut violations = std::mem::take(&mut stats.violations);
    let outcome = crate::report::report_violations("C16", seed, &mut violations);
    let n_expr = stats.get("c16.expressions");
    let coverage = Json::obj()
        .set("evaluations", Json::Int(n_expr as i128))
        .set("distinct_nontrivial", Json::Int(stats.distinct("c16.distinct_accepted") as i128))
        .set("rule", Json::s("one evaluation = one expression decided: parse outcome (both CronSchedule::parse and FromStr) against the reference grammar's accept/reject/undetermined verdict, and for accepted satisfiable expressions the denoted sets read back through pinned-clock membership probes (60 minutes of an hour, 24 hours of a day, two days in each of 12 months, a day sweep) and a simulated daemon's firing history. distinct_nontrivial = distinct expression strings that the reference accepts (i.e. whose denoted sets were actually read back or, if unsatisfiable, whose acceptance was checked); rejected and undetermined strings are not counted"))
        .set("samples", Json::Arr(stats.samples.iter().map(|(_, j)| j.clone()).collect()))
        .set("exhaustive_subspace", Json::s("every single value, every range a<=b (weekday ranges up to 7), every step 1..=max+1, every name and name range in four case styles, in each of the five fields with the other four `*`"))
        .set("exhaustive_subspace_size", Json::u(n_single))
        .set("exhaustive_subspace_2", Json::s("every pair of values as a two-item list per field; every (day-of-month, day-of-week 0-7) combination with both day fields given; range-next-to-step lists per field; boundary numerals (max+1, 255/256/257, 65536, 2^32, signs, decimals, non-ASCII digits) in every syntactic position; name prefixes, extensions and Unicode look-alikes"))
        .set("exhaustive_subspace_2_size", Json::u(exhaustive.len() - n_single))
        .set("exhaustive", Json::Bool(false))
        .set("distinct_expressions", Json::Int(stats.distinct("c16.distinct_expr") as i128))
        .set("sources", stats.counters_json("c16.source."))
        .set("verdicts", stats.counters_json("c16.verdict."))
        .set("membership_probes", stats.counters_json("c16.probes."))
        .set("daemon_firings_checked", Json::Int(stats.get("c16.daemon_firings_checked") as i128))
        .set("reach", stats.counters_json("c16.reach."))
        .set("unjudged", stats.counters_json("c16.unjudged."))
        .set("reach_probes_at_zero", crate::report::probes_at_zero(&stats, &["c16.reach.seven_as_range_end","c16.reach.name_range","c16.reach.step_equals_max_plus_1","c16.reach.list","c16.reach.both_day_fields_given","c16.reach.mutant_still_valid","c16.reach.valid_but_never_fires(parse_only)","c16.verdict.reject","c16.daemon_firings_checked"]))
        .set("faults", Json::s("none: C16 uses the clock seam only to observe; no fault is injected (weakest fit of the four, see DESIGN 5.1)"))
        .set("expressions_per_hour", Json::Int((n_expr as f64 / wall.max(1e-9) * 3600.0) as i128))
        .set("real_components", Json::s("cron.rs parse/FromStr/Iterator::next and everything below it"))
        .set("stubbed_components", Json::s("SystemTime::now() only"))
        .set("known_findings_matched", Json::u(outcome.known))
        .set("threads", Json::u(crate::runner::threads()));
    crate::report::write_evidence(
        "C16",
        tier,
        seed,
        "exploration",
        coverage,
        &[
            "reference grammar written from the doc table of CronSchedule::parse and the property text; forms the documentation does not settle (steps > max+1, leading zeros, wrapping name ranges, name/number mixed ranges, ranges starting at 7, leading/trailing whitespace) are never judged",
            "a probe observes membership of minute X as next()==X with the clock pinned inside minute X-1",
        ],
        wall,
        outcome.reported,
    );
    println!(
        "C16 {}: {} expressions ({} accepted distinct), {} membership probes, {:.1}s, violations={}",
        tier,
        n_expr,
        stats.distinct("c16.distinct_accepted"),
        stats.get("c16.probes.member") + stats.get("c16.probes.non_member"),
        wall,
        outcome.reported
    );
    outcome.exit_code
}

fn reach(expr: &str, stats: &mut Stats) {
    let f: Vec<&str> = expr.split_whitespace().collect();
    if f.len() != 5 {
        return;
    }
    if f[4].split(',').any(|i| i.ends_with("-7")) {
        stats.inc("c16.reach.seven_as_range_end");
    }
    if f[3].split(',').chain(f[4].split(',')).any(|i| i.contains('-') && i.chars().any(|c| c.is_ascii_alphabetic())) {
        stats.inc("c16.reach.name_range");
    }
    let maxp1 = ["*/60", "*/24", "*/32", "*/13", "*/7"];
    if (0..5).any(|i| f[i].split(',').any(|it| it == maxp1[i])) {
        stats.inc("c16.reach.step_equals_max_plus_1");
    }
    if f.iter().any(|fld| fld.split(',').count() > 1) {
        stats.inc("c16.reach.list");
    }
    if f[2] != "*" && f[4] != "*" {
        stats.inc("c16.reach.both_day_fields_given");
    }
}

pub fn replay(doc: &Json) -> i32 {
    let inv = doc.get("invariant").and_then(|v| v.str()).unwrap_or("").to_string();
    let probe_seed = doc.get("probe_seed").and_then(|v| v.int()).unwrap_or(0) as u64;
    let exprs: Vec<String> = if let Some(e) = doc.get("expr").and_then(|v| v.str()) {
        vec![e.to_string()]
    } else {
        doc.get("exprs").and_then(|v| v.arr()).map(|a| a.iter().filter_map(|e| e.str().map(|s| s.to_string())).collect()).unwrap_or_default()
    };
    if let Some(hist) = doc.get("history").and_then(|v| v.arr()) {
        // re-create the state the earlier calls of the run may have left in the code under test
        for h in hist {
            if let Some(e) = h.get("expr").and_then(|v| v.str()) {
                let _ = check_expr(e, probe_seed, budget_from(h), &mut None);
            }
        }
        println!("replay: {} earlier expressions of the run re-decided first", hist.len());
    }
    let budget = if doc.get("expr").is_some() {
        budget_from(doc)
    } else if doc.get("tier").and_then(|v| v.str()) == Some("quick") {
        QUICK
    } else {
        FULL
    };
    let want_obs = doc.get("observed").and_then(|v| v.str()).unwrap_or("").to_string();
    for e in exprs {
        match check_expr(&e, probe_seed, budget, &mut None) {
            Ok(()) => println!("replay: {:?} decided without violation", e),
            Err(f) => {
                println!("replay: {:?} [{}] observed {} ; expected {}", e, f.invariant, f.observed, f.expected);
                if f.invariant == inv && f.observed == want_obs {
                    println!("replay: reproduced exactly");
                } else {
                    println!("replay: a violation occurs but differs from the recorded one ([{}] {})", inv, want_obs);
                }
                return 1;
            }
        }
    }
    0
}
