//! C17 engine: the cron iterator as a state machine driven by a simulated wall clock.
//!
//! A run = one expression, one start instant, a list of events (clock moves, `next()` calls on
//! one of several daemons, clone, restart). The real `CronSchedule` is executed against the
//! reference model after every step.

use crate::cal;
use crate::crongen::{self, Flavor};
use crate::cronmodel::{self, Sets, Verdict, HORIZON_DAYS};
use crate::json::Json;
use crate::report::{fnv, fnv_mix, Stats, Violation};
use crate::rng::{self, Rng};
use crate::world::{guarded, Instant, PanicInfo, SimClock};
use astrolabe::{CronSchedule, DateTime, DateUtilities, TimeUtilities};

#[derive(Clone, Copy, Debug, PartialEq)]
pub enum Mode {
    /// A well-behaved daemon: sleeps until the returned instant, wakes with jitter < 60 s.
    Daemon,
    /// Arbitrary forward clock moves, several daemons, clones, restarts, stalls and jumps.
    Chaotic,
    /// Like Chaotic plus backward clock steps: recorded, never judged (outside the quantifier).
    Backstep,
}

impl Mode {
    fn name(self) -> &'static str {
        match self {
            Mode::Daemon => "daemon",
            Mode::Chaotic => "chaotic",
            Mode::Backstep => "backstep-probe",
        }
    }
    fn from_name(s: &str) -> Option<Mode> {
        Some(match s {
            "daemon" => Mode::Daemon,
            "chaotic" => Mode::Chaotic,
            "backstep-probe" => Mode::Backstep,
            _ => return None,
        })
    }
}

#[derive(Clone, Debug, PartialEq)]
pub enum Ev {
    Advance(u128),
    Back(u128),
    Next(usize),
    Clone(usize),
    Restart(usize),
}

#[derive(Clone, Debug, PartialEq)]
pub struct Plan {
    pub expr: String,
    pub start: Instant,
    pub mode: Mode,
    pub events: Vec<Ev>,
}

#[derive(Clone, Debug, PartialEq)]
pub struct Fail {
    pub invariant: &'static str,
    pub step: usize,
    pub observed: String,
    pub expected: String,
    pub panic: Option<PanicInfo>,
}

pub const LIMIT_SECS: u64 = 13_569_465_600; // 2400-01-01T00:00:00Z

// ------------------------------------------------------------------------------------------------
// Generation
// ------------------------------------------------------------------------------------------------

fn gen_sat_expr(rng: &mut Rng, flavor: Flavor) -> (String, Sets) {
    loop {
        let e = crongen::gen_expr(rng, flavor);
        if let Verdict::Accept(s) = cronmodel::reference_parse(&e) {
            if s.satisfiable() {
                return (e, s);
            }
        }
    }
}

fn gen_start(rng: &mut Rng, sets: &Sets) -> Instant {
    let nanos = match rng.below(4) {
        0 => 0,
        1 => 999_999_999,
        _ => rng.below(1_000_000_000) as u32,
    };
    let secs: i64 = match rng.below(5) {
        0 | 1 => rng.range(0, LIMIT_SECS as i64 - 1),
        2 => {
            // near a calendar boundary
            let years = [
                1970, 1972, 1999, 2000, 2001, 2023, 2024, 2038, 2096, 2099, 2100, 2101, 2104, 2200,
                2300, 2396, 2399,
            ];
            let y = if rng.chance(1, 3) {
                rng.range(1970, 2399)
            } else {
                *rng.pick(&years)
            };
            let (m, d) = match rng.below(6) {
                0 => (1, 1),
                1 => (2, 28),
                2 => (3, 1),
                3 => (12, 31),
                4 => {
                    let m = rng.range(1, 12) as u32;
                    (m, cal::days_in_month(y, m))
                }
                _ => (2, cal::days_in_month(y, 2)),
            };
            let t = cal::unix_from_civil(y, m, d, 0, 0, 0) + rng.range(-2 * 86400, 2 * 86400);
            t.clamp(0, LIMIT_SECS as i64 - 1)
        }
        3 => {
            let base = rng.range(0, LIMIT_SECS as i64 / 60 - 1);
            match sets.next_after(base, HORIZON_DAYS) {
                Some(m) => (m * 60 + rng.range(-90, 90)).clamp(0, LIMIT_SECS as i64 - 1),
                None => base * 60,
            }
        }
        _ => {
            let base = rng.range(0, LIMIT_SECS as i64 / 60 - 1);
            match sets.next_after(base, HORIZON_DAYS) {
                Some(m) => (m * 60).clamp(0, LIMIT_SECS as i64 - 1),
                None => base * 60,
            }
        }
    };
    Instant::new(secs as u64, nanos)
}

/// Generator-side twin of the world, used to aim clock moves at interesting places.
struct GenState {
    now: Instant,
    lasts: Vec<Option<i64>>,
}

fn gen_advance(rng: &mut Rng, g: &GenState, sets: &Sets, chaotic: bool) -> u128 {
    let now_ns = g.now.as_ns();
    let to_next_minute = 60_000_000_000u128 - now_ns % 60_000_000_000u128;
    let kind = if chaotic {
        rng.weighted(&[2, 2, 3, 4, 6, 2, 1, 1])
    } else {
        4
    };
    match kind {
        0 => 0,
        1 => rng.range(1, 999_999_999) as u128,
        2 => rng.range(1, 59) as u128 * 1_000_000_000 + rng.below(1_000_000_000) as u128,
        3 => match rng.below(3) {
            0 => to_next_minute - 1,
            1 => to_next_minute,
            _ => to_next_minute + 1,
        },
        4 => {
            // sleep until the last returned instant of some daemon, then wake with jitter
            let known: Vec<i64> = g.lasts.iter().filter_map(|l| *l).collect();
            if known.is_empty() {
                return rng.range(0, 120) as u128 * 1_000_000_000;
            }
            let target = *rng.pick(&known) as i128 * 60_000_000_000i128;
            let jitter: i128 = if !chaotic {
                rng.range(0, 59_999_999_999) as i128
            } else {
                match rng.weighted(&[2, 5, 2, 2, 1]) {
                    0 => -(rng.range(1, 90_000_000_000) as i128), // early wake
                    1 => rng.range(0, 59_999_999_999) as i128,    // normal
                    2 => rng.range(60, 3600) as i128 * 1_000_000_000, // stalled minutes
                    3 => rng.range(3600, 40 * 86400) as i128 * 1_000_000_000, // suspended days
                    _ => rng.range(40 * 86400, 3 * 366 * 86400) as i128 * 1_000_000_000, // years
                }
            };
            let want = target + jitter;
            if want <= now_ns as i128 {
                0
            } else {
                (want - now_ns as i128) as u128
            }
        }
        5 => {
            // overtake: jump past the next few results
            let base = g.now.secs as i64 / 60;
            let mut m = base;
            for _ in 0..rng.range(1, 4) {
                if let Some(n) = sets.next_after(m, HORIZON_DAYS) {
                    m = n;
                }
            }
            let want = m as u128 * 60_000_000_000 + rng.below(120_000_000_000) as u128;
            want.saturating_sub(now_ns)
        }
        6 => rng.range(60, 3 * 366 * 86400) as u128 * 1_000_000_000,
        _ => {
            // the clock was wrong, or the machine was switched off, for years: a jump of a whole
            // number of years (often a multiple of the leap and weekday cycles) give or take weeks
            let years = match rng.below(4) {
                0 => *rng.pick(&[4i64, 5, 6, 11, 12, 28, 40, 100, 200, 400]),
                _ => rng.range(1, 30),
            };
            let secs = years * 31_556_952 + rng.range(-40 * 86400, 40 * 86400);
            secs.max(0) as u128 * 1_000_000_000
        }
    }
}

pub fn gen_plan(run_seed: u64) -> Plan {
    let mut rng = Rng::new(run_seed);
    let mode = match rng.weighted(&[3, 6, 1]) {
        0 => Mode::Daemon,
        1 => Mode::Chaotic,
        _ => Mode::Backstep,
    };
    // one run in 150 is a marathon: hundreds of calls on one instance (counters, caches and
    // anything else that only shows after many calls)
    let marathon = mode != Mode::Backstep && rng.chance(1, 150);
    // marathon kinds: 0 mixed; 1 drain (the clock stands still or creeps while the daemon is asked
    // again and again - results run far ahead of the clock); 2 drain, then the clock jumps past
    // everything returned so far, then drain again
    let marathon_kind = if marathon { rng.below(3) } else { 0 };
    let flavor = match rng.weighted(&[6, 8, 6, 1]) {
        0 => Flavor::Dense,
        1 => Flavor::Sparse,
        2 => Flavor::Grammar,
        _ => Flavor::NearStep,
    };
    let (expr, sets) = gen_sat_expr(&mut rng, flavor);
    let start = gen_start(&mut rng, &sets);
    let n_events = if marathon { rng.range(300, 1500) as usize } else { rng.range(3, 40) as usize };
    let mut g = GenState {
        now: start,
        lasts: vec![None],
    };
    let mut events = Vec::new();
    let model_next = |g: &mut GenState, p: usize| {
        let now_min = g.now.secs as i64 / 60;
        let base = match g.lasts[p] {
            Some(l) if l >= now_min => l,
            _ => now_min,
        };
        g.lasts[p] = sets.next_after(base, HORIZON_DAYS);
    };
    match mode {
        Mode::Daemon => {
            events.push(Ev::Next(0));
            model_next(&mut g, 0);
            while events.len() + 2 <= n_events {
                let adv = gen_advance(&mut rng, &g, &sets, false);
                if g.now.add_ns(adv).secs >= LIMIT_SECS {
                    break;
                }
                g.now = g.now.add_ns(adv);
                events.push(Ev::Advance(adv));
                events.push(Ev::Next(0));
                model_next(&mut g, 0);
            }
        }
        Mode::Chaotic | Mode::Backstep => {
            while events.len() < n_events {
                let back_w = if mode == Mode::Backstep { 3 } else { 0 };
                let w_adv = if marathon { 3 } else { 8 };
                if marathon_kind >= 1 {
                    // drain: next() on daemon 0, now and then a creep of less than a minute
                    if marathon_kind == 2 && events.len() == n_events / 2 {
                        // the suspended process wakes up: jump past the last result
                        let target = g.lasts[0].map(|l| l as u128 * 60_000_000_000 + rng.below(86_400_000_000_000) as u128).unwrap_or(0);
                        let adv = target.saturating_sub(g.now.as_ns());
                        if g.now.add_ns(adv).secs < LIMIT_SECS {
                            g.now = g.now.add_ns(adv);
                            events.push(Ev::Advance(adv));
                            continue;
                        }
                    }
                    if rng.chance(1, 12) {
                        let adv = rng.below(59_000_000_000) as u128;
                        g.now = g.now.add_ns(adv);
                        events.push(Ev::Advance(adv));
                    } else {
                        events.push(Ev::Next(0));
                        model_next(&mut g, 0);
                    }
                    continue;
                }
                match rng.weighted(&[10, w_adv, 1, 1, back_w]) {
                    0 => {
                        let p = rng.usize(g.lasts.len());
                        events.push(Ev::Next(p));
                        model_next(&mut g, p);
                    }
                    1 => {
                        let adv = gen_advance(&mut rng, &g, &sets, true);
                        if g.now.add_ns(adv).secs >= LIMIT_SECS {
                            continue;
                        }
                        g.now = g.now.add_ns(adv);
                        events.push(Ev::Advance(adv));
                    }
                    2 => {
                        if g.lasts.len() < 4 {
                            let p = rng.usize(g.lasts.len());
                            events.push(Ev::Clone(p));
                            let l = g.lasts[p];
                            g.lasts.push(l);
                        }
                    }
                    3 => {
                        let p = rng.usize(g.lasts.len());
                        events.push(Ev::Restart(p));
                        g.lasts[p] = None;
                    }
                    _ => {
                        let back = match rng.below(3) {
                            0 => rng.range(1, 999_999_999) as u128,
                            1 => rng.range(1, 3600) as u128 * 1_000_000_000,
                            _ => rng.range(3600, 400 * 86400) as u128 * 1_000_000_000,
                        };
                        g.now = g.now.sub_ns_saturating(back);
                        events.push(Ev::Back(back));
                    }
                }
            }
        }
    }
    Plan {
        expr,
        start,
        mode,
        events,
    }
}

// ------------------------------------------------------------------------------------------------
// Execution
// ------------------------------------------------------------------------------------------------

struct Daemon {
    real: CronSchedule,
    last: Option<i64>,
    prev_result: Option<i64>,
    frozen_calls: (u64, u32), // (clock secs at last call, consecutive calls with that clock)
}

#[derive(Default)]
pub struct RunLog {
    pub hash: u64,
    pub calls: u64,
    pub sim_ns: u128,
    pub unjudged: u64,
    pub trace: Vec<String>,
}

fn parse_real(expr: &str, step: usize) -> Result<CronSchedule, Fail> {
    let e = expr.to_string();
    // both entry points build daemons (chosen by a hash of the expression and the step, so that
    // replay is exact)
    let via_fromstr = (fnv(expr.as_bytes()) ^ step as u64) % 2 == 1;
    let out = guarded(move || if via_fromstr { e.parse::<CronSchedule>() } else { CronSchedule::parse(&e) });
    match out.result {
        Ok(Ok(s)) => Ok(s),
        Ok(Err(err)) => Err(Fail {
            invariant: "I0-parse",
            step,
            observed: format!("parse error: {}", err),
            expected: "Ok (the reference grammar accepts this expression)".into(),
            panic: None,
        }),
        Err(p) => Err(Fail {
            invariant: "I0-panic",
            step,
            observed: format!("parse panicked: {}", p.msg),
            expected: "Ok".into(),
            panic: Some(p),
        }),
    }
}

/// Executes a plan. `stats` receives reach counters when given. `keep_trace` records a readable trace.
pub fn execute(plan: &Plan, mut stats: Option<&mut Stats>, keep_trace: bool) -> Result<RunLog, Fail> {
    let sets = match cronmodel::reference_parse(&plan.expr) {
        Verdict::Accept(s) if s.satisfiable() => s,
        other => {
            return Err(Fail {
                invariant: "HARNESS-plan",
                step: 0,
                observed: format!("{:?}", other),
                expected: "an expression the reference accepts and that can fire".into(),
                panic: None,
            })
        }
    };
    let clock = SimClock::install(plan.start);
    let result = execute_inner(plan, &sets, &clock, &mut stats, keep_trace);
    SimClock::uninstall();
    result
}

fn execute_inner(
    plan: &Plan,
    sets: &Sets,
    clock: &SimClock,
    stats: &mut Option<&mut Stats>,
    keep_trace: bool,
) -> Result<RunLog, Fail> {
    let mut log = RunLog::default();
    log.hash = fnv(plan.expr.as_bytes());
    let judged = plan.mode != Mode::Backstep;
    let mut daemons = vec![Daemon {
        real: parse_real(&plan.expr, 0)?,
        last: None,
        prev_result: None,
        frozen_calls: (u64::MAX, 0),
    }];
    let shape = (sets.min != cronmodel::ALL_MIN) as u64
        | ((sets.hour != cronmodel::ALL_HOUR) as u64) << 1
        | (sets.dom_restricted() as u64) << 2
        | ((sets.mon != cronmodel::ALL_MON) as u64) << 3
        | (sets.dow_restricted() as u64) << 4;
    let mut seq_hash = 0xABCDu64;
    let mut history = 0u64; // bit0 clone seen, bit1 restart seen
    for (step, ev) in plan.events.iter().enumerate() {
        match ev {
            Ev::Advance(ns) => {
                clock.advance_ns(*ns);
                log.sim_ns += *ns;
                seq_hash = fnv_mix(seq_hash, 1);
                if keep_trace {
                    log.trace.push(format!("#{} advance {} ns -> clock {}.{:09}", step, ns, clock.now().secs, clock.now().nanos));
                }
            }
            Ev::Back(ns) => {
                let t = clock.now().sub_ns_saturating(*ns);
                clock.set(t);
                seq_hash = fnv_mix(seq_hash, 2);
                if let Some(s) = stats.as_deref_mut() {
                    s.inc("c17.fault.backward_step.injected(unjudged)");
                }
                if keep_trace {
                    log.trace.push(format!("#{} clock steps back {} ns -> {}.{:09}", step, ns, t.secs, t.nanos));
                }
            }
            Ev::Clone(p) => {
                if *p >= daemons.len() {
                    continue;
                }
                let src = &daemons[*p];
                let out = guarded(|| src.real.clone());
                let real = match out.result {
                    Ok(c) => c,
                    Err(pi) => {
                        return Err(Fail {
                            invariant: "I0-panic",
                            step,
                            observed: format!("clone panicked: {}", pi.msg),
                            expected: "a clone".into(),
                            panic: Some(pi),
                        })
                    }
                };
                let d = Daemon {
                    real,
                    last: src.last,
                    prev_result: src.prev_result,
                    frozen_calls: (u64::MAX, 0),
                };
                daemons.push(d);
                history |= 1;
                seq_hash = fnv_mix(seq_hash, 3);
                if let Some(s) = stats.as_deref_mut() {
                    s.inc("c17.event.clone");
                }
                if keep_trace {
                    log.trace.push(format!("#{} daemon {} := clone of daemon {}", step, daemons.len() - 1, p));
                }
            }
            Ev::Restart(p) => {
                if *p >= daemons.len() {
                    continue;
                }
                daemons[*p].real = parse_real(&plan.expr, step)?;
                daemons[*p].last = None;
                daemons[*p].prev_result = None;
                history |= 2;
                seq_hash = fnv_mix(seq_hash, 4);
                if let Some(s) = stats.as_deref_mut() {
                    s.inc("c17.fault.crash_restart.injected");
                }
                if keep_trace {
                    log.trace.push(format!("#{} daemon {} crashes and restarts from the crontab line", step, p));
                }
            }
            Ev::Next(p) => {
                if *p >= daemons.len() {
                    continue;
                }
                seq_hash = fnv_mix(seq_hash, 5 + *p as u64);
                let reads_before = clock.reads_len();
                let d = &mut daemons[*p];
                let out = guarded(|| d.real.next());
                log.calls += 1;
                let served = if clock.reads_len() > reads_before {
                    clock.read_at(clock.reads_len() - 1)
                } else {
                    clock.now()
                };
                log.hash = fnv_mix(log.hash, served.secs);
                log.hash = fnv_mix(log.hash, served.nanos as u64);
                let r: DateTime = match out.result {
                    Err(pi) => {
                        return Err(Fail {
                            invariant: "I0-panic",
                            step,
                            observed: format!("next() panicked: {} ({}:{})", pi.msg, pi.file, pi.line),
                            expected: "Some(instant)".into(),
                            panic: Some(pi),
                        })
                    }
                    Ok(None) => {
                        return Err(Fail {
                            invariant: "I0-none",
                            step,
                            observed: "None".into(),
                            expected: "Some(instant)".into(),
                            panic: None,
                        })
                    }
                    Ok(Some(r)) => r,
                };
                let now_min = served.secs as i64 / 60;
                let base = match d.last {
                    Some(l) if l >= now_min => l,
                    _ => now_min,
                };
                let want = sets.next_after(base, HORIZON_DAYS).ok_or(Fail {
                    invariant: "HARNESS-model",
                    step,
                    observed: "model found no next instant".into(),
                    expected: "satisfiable schedule".into(),
                    panic: None,
                })?;
                let (ts, fields, sec, nano) = {
                    let o = guarded(|| (r.timestamp(), r.as_ymdhms(), r.second(), r.nano()));
                    match o.result {
                        Ok(v) => v,
                        Err(pi) => {
                            return Err(Fail {
                                invariant: "I0-panic",
                                step,
                                observed: format!("reading the result panicked: {}", pi.msg),
                                expected: "fields".into(),
                                panic: Some(pi),
                            })
                        }
                    }
                };
                log.hash = fnv_mix(log.hash, ts as u64);
                if keep_trace {
                    log.trace.push(format!(
                        "#{} daemon {} next() at clock {}.{:09} ({}) -> {} ; model {}",
                        step,
                        p,
                        served.secs,
                        served.nanos,
                        cal::fmt_unix(served.secs as i64),
                        cal::fmt_unix(ts),
                        cal::fmt_unix(want * 60)
                    ));
                }
                if !judged {
                    log.unjudged += 1;
                    if let Some(s) = stats.as_deref_mut() {
                        s.inc("c17.unjudged.backstep_probe_calls");
                        if ts == want * 60 {
                            s.inc("c17.unjudged.backstep_probe_calls_agreeing_with_model");
                        }
                    }
                    d.last = Some(ts.div_euclid(60));
                    d.prev_result = Some(ts);
                    continue;
                }
                if ts != want * 60 {
                    return Err(Fail {
                        invariant: "I1-earliest",
                        step,
                        observed: format!("{} ({})", ts, cal::fmt_unix(ts)),
                        expected: format!(
                            "{} ({}) = earliest matching minute after max(now={}, last={:?})",
                            want * 60,
                            cal::fmt_unix(want * 60),
                            cal::fmt_unix(now_min * 60),
                            d.last.map(|l| cal::fmt_unix(l * 60))
                        ),
                        panic: None,
                    });
                }
                let (wy, wm, wd, wh, wmi, ws) = cal::civil_from_unix(want * 60);
                if fields != (wy as i32, wm, wd, wh, wmi, ws) {
                    return Err(Fail {
                        invariant: "I1-fields",
                        step,
                        observed: format!("{:?}", fields),
                        expected: format!("{:?}", (wy, wm, wd, wh, wmi, ws)),
                        panic: None,
                    });
                }
                if sec != 0 || nano != 0 {
                    return Err(Fail {
                        invariant: "I2-zero-seconds",
                        step,
                        observed: format!("second={} nano={}", sec, nano),
                        expected: "second=0 nano=0".into(),
                        panic: None,
                    });
                }
                if let Some(prev) = d.prev_result {
                    if ts <= prev {
                        return Err(Fail {
                            invariant: "I3-increasing",
                            step,
                            observed: format!("{} after {}", ts, prev),
                            expected: "strictly increasing results".into(),
                            panic: None,
                        });
                    }
                }
                // H1: over the history - independent enumeration of the window (base, result]:
                // exactly the result, nothing skipped.
                if want - base <= 400 * 1440 {
                    let w = sets.enumerate_window(base, ts.div_euclid(60), 3);
                    if w != vec![ts.div_euclid(60)] {
                        return Err(Fail {
                            invariant: "H1-window",
                            step,
                            observed: format!("result {} ; matching minutes in (base, result] = {:?}", ts / 60, w),
                            expected: "exactly the result".into(),
                            panic: None,
                        });
                    }
                }
                // H2: for short gaps a third, brute-force formulation: scan every minute of
                // (base, result) with the per-minute predicate; none may match, the result must
                if want - base <= 3000 {
                    for m in base + 1..want {
                        if sets.matches_minute(m) {
                            return Err(Fail {
                                invariant: "H2-skipped-minute",
                                step,
                                observed: format!("result {} but minute {} matches the schedule and lies after max(now, last)", cal::fmt_unix(ts), cal::fmt_unix(m * 60)),
                                expected: "no matching minute is skipped".into(),
                                panic: None,
                            });
                        }
                    }
                    if !sets.matches_minute(want) {
                        return Err(Fail {
                            invariant: "H2-not-matching",
                            step,
                            observed: format!("result {} does not match the schedule", cal::fmt_unix(ts)),
                            expected: "a matching minute".into(),
                            panic: None,
                        });
                    }
                }
                // reach
                if let Some(s) = stats.as_deref_mut() {
                    let rel = match d.last {
                        None => 0u64,
                        Some(l) if l > now_min => 1,
                        Some(l) if l == now_min => 2,
                        Some(_) => 3,
                    };
                    let carry = Sets::carry_class(base, want) as u64;
                    let leap_day = wm == 2 && wd == 29;
                    let (by, bm, _, _, _, _) = cal::civil_from_unix(base * 60);
                    let crossed_century_feb =
                        !cal::is_leap(wy) && wy % 100 == 0 && (bm <= 2 && by == wy) && wm > 2;
                    s.inc(["c17.reach.last_none", "c17.reach.last_ahead_of_clock", "c17.reach.clock_equals_last", "c17.reach.clock_overtook_last"][rel as usize]);
                    if rel == 3 {
                        let missed = sets.enumerate_window(d.last.unwrap(), now_min, 3).len();
                        if missed >= 1 {
                            s.inc("c17.fault.clock_overtook_results.effective");
                        }
                        if missed >= 2 {
                            s.inc("c17.reach.clock_overtook_2plus_results");
                        }
                    }
                    s.inc(["c17.carry.minute", "c17.carry.hour", "c17.carry.day", "c17.carry.month", "c17.carry.year"][carry as usize]);
                    if leap_day {
                        s.inc("c17.reach.result_is_feb29");
                    }
                    if crossed_century_feb {
                        s.inc("c17.reach.crossed_nonleap_century_february");
                    }
                    if d.frozen_calls.0 == served.secs {
                        d.frozen_calls.1 += 1;
                        if d.frozen_calls.1 == 3 {
                            s.inc("c17.reach.three_calls_with_frozen_clock");
                        }
                    } else {
                        d.frozen_calls = (served.secs, 1);
                    }
                    let state = shape | carry << 5 | rel << 8 | (leap_day as u64) << 10 | (crossed_century_feb as u64) << 11 | history << 12;
                    s.note("c17.states", state);
                }
                d.last = Some(want);
                d.prev_result = Some(ts);
            }
        }
    }
    if let Some(s) = stats.as_deref_mut() {
        s.note("c17.interleavings", seq_hash);
    }
    Ok(log)
}

// ------------------------------------------------------------------------------------------------
// JSON
// ------------------------------------------------------------------------------------------------

pub fn plan_to_json(plan: &Plan) -> Json {
    let events = plan
        .events
        .iter()
        .map(|e| match e {
            Ev::Advance(ns) => Json::obj().set("t", Json::s("advance")).set("ns", Json::Int(*ns as i128)),
            Ev::Back(ns) => Json::obj().set("t", Json::s("back")).set("ns", Json::Int(*ns as i128)),
            Ev::Next(p) => Json::obj().set("t", Json::s("next")).set("p", Json::u(*p)),
            Ev::Clone(p) => Json::obj().set("t", Json::s("clone")).set("p", Json::u(*p)),
            Ev::Restart(p) => Json::obj().set("t", Json::s("restart")).set("p", Json::u(*p)),
        })
        .collect();
    Json::obj()
        .set("expr", Json::s(&plan.expr))
        .set("mode", Json::s(plan.mode.name()))
        .set("start_secs", Json::Int(plan.start.secs as i128))
        .set("start_nanos", Json::Int(plan.start.nanos as i128))
        .set("start_utc", Json::s(&cal::fmt_unix(plan.start.secs as i64)))
        .set("events", Json::Arr(events))
}

pub fn plan_from_json(j: &Json) -> Result<Plan, String> {
    let expr = j.get("expr").and_then(|v| v.str()).ok_or("expr")?.to_string();
    let mode = Mode::from_name(j.get("mode").and_then(|v| v.str()).ok_or("mode")?).ok_or("mode name")?;
    let secs = j.get("start_secs").and_then(|v| v.int()).ok_or("start_secs")? as u64;
    let nanos = j.get("start_nanos").and_then(|v| v.int()).ok_or("start_nanos")? as u32;
    let mut events = Vec::new();
    for e in j.get("events").and_then(|v| v.arr()).ok_or("events")? {
        let t = e.get("t").and_then(|v| v.str()).ok_or("event.t")?;
        let ns = || e.get("ns").and_then(|v| v.int()).map(|v| v as u128).ok_or("event.ns");
        let p = || e.get("p").and_then(|v| v.int()).map(|v| v as usize).ok_or("event.p");
        events.push(match t {
            "advance" => Ev::Advance(ns()?),
            "back" => Ev::Back(ns()?),
            "next" => Ev::Next(p()?),
            "clone" => Ev::Clone(p()?),
            "restart" => Ev::Restart(p()?),
            _ => return Err(format!("unknown event {}", t)),
        });
    }
    Ok(Plan {
        expr,
        start: Instant::new(secs, nanos),
        mode,
        events,
    })
}

// ------------------------------------------------------------------------------------------------
// Minimisation
// ------------------------------------------------------------------------------------------------

thread_local! {
    /// Minimisation budget of the violation being minimised: (re-executions left, deadline).
    static MIN_BUDGET: std::cell::Cell<(u32, Option<std::time::Instant>)> = const { std::cell::Cell::new((0, None)) };
}

fn same_failure(plan: &Plan, invariant: &str) -> Option<Fail> {
    let (left, deadline) = MIN_BUDGET.with(|b| b.get());
    if left == 0 || deadline.map(|d| std::time::Instant::now() > d).unwrap_or(false) {
        return None; // budget spent: keep what we have
    }
    MIN_BUDGET.with(|b| b.set((left - 1, deadline)));
    match execute(plan, None, false) {
        Err(f) if f.invariant == invariant => Some(f),
        _ => None,
    }
}

pub fn minimise(plan: &Plan, fail: &Fail) -> (Plan, Fail) {
    // bounded: at most 800 re-executions and 5 s per violation (a change that makes every call
    // slow must not turn minimisation into the bottleneck)
    MIN_BUDGET.with(|b| b.set((800, Some(std::time::Instant::now() + std::time::Duration::from_secs(5)))));
    let inv = fail.invariant;
    let mut best = plan.clone();
    let mut best_fail = fail.clone();
    // 1. cut after the failing step
    if fail.step + 1 < best.events.len() {
        let mut c = best.clone();
        c.events.truncate(fail.step + 1);
        if let Some(f) = same_failure(&c, inv) {
            best = c;
            best_fail = f;
        }
    }
    // 2. ddmin on events
    let mut n = 2usize;
    while best.events.len() >= 2 {
        let len = best.events.len();
        let chunk = (len + n - 1) / n;
        let mut reduced = false;
        let mut i = 0;
        while i < len {
            let mut c = best.clone();
            let end = (i + chunk).min(len);
            c.events.drain(i..end);
            if !c.events.is_empty() {
                if let Some(f) = same_failure(&c, inv) {
                    best = c;
                    best_fail = f;
                    reduced = true;
                    break;
                }
            }
            i += chunk;
        }
        if reduced {
            n = (n - 1).max(2);
        } else {
            if chunk == 1 {
                break;
            }
            n = (n * 2).min(len);
        }
    }
    // 3. simplify the expression: fields to `*`, lists to single items
    loop {
        let mut progressed = false;
        let fields: Vec<String> = best.expr.split_whitespace().map(|s| s.to_string()).collect();
        if fields.len() != 5 {
            break;
        }
        'outer: for i in 0..5 {
            let mut cands: Vec<String> = Vec::new();
            if fields[i] != "*" {
                cands.push("*".into());
            }
            let items: Vec<&str> = fields[i].split(',').collect();
            if items.len() > 1 {
                for it in &items {
                    cands.push(it.to_string());
                }
            }
            for cand in cands {
                let mut f2 = fields.clone();
                f2[i] = cand;
                let mut c = best.clone();
                c.expr = f2.join(" ");
                if let Some(f) = same_failure(&c, inv) {
                    best = c;
                    best_fail = f;
                    progressed = true;
                    break 'outer;
                }
            }
        }
        // canonical separators
        let canon = fields.join(" ");
        if !progressed && canon != best.expr {
            let mut c = best.clone();
            c.expr = canon;
            if let Some(f) = same_failure(&c, inv) {
                best = c;
                best_fail = f;
                progressed = true;
            }
        }
        if !progressed {
            break;
        }
    }
    // 4. simplify clock values
    for cand in [
        Instant::new(best.start.secs - best.start.secs % 60, 0),
        Instant::new(best.start.secs, 0),
    ] {
        if cand != best.start {
            let mut c = best.clone();
            c.start = cand;
            if let Some(f) = same_failure(&c, inv) {
                best = c;
                best_fail = f;
            }
        }
    }
    for i in 0..best.events.len() {
        if let Ev::Advance(ns) = best.events[i] {
            let sec = 1_000_000_000u128;
            for cand in [0u128, 60 * sec, ns / (60 * sec) * (60 * sec), ns / (86400 * sec) * (86400 * sec), ns / sec * sec] {
                if cand != ns {
                    let mut c = best.clone();
                    c.events[i] = Ev::Advance(cand);
                    if let Some(f) = same_failure(&c, inv) {
                        best = c;
                        best_fail = f;
                        break;
                    }
                }
            }
        }
    }
    // drop zero advances
    let mut c = best.clone();
    c.events.retain(|e| *e != Ev::Advance(0));
    if c.events.len() != best.events.len() {
        if let Some(f) = same_failure(&c, inv) {
            best = c;
            best_fail = f;
        }
    }
    (best, best_fail)
}

pub fn fail_key(plan: &Plan, f: &Fail) -> String {
    match &f.panic {
        Some(p) => format!("{}:{}", f.invariant, p.key()),
        None => format!("{}:expr={}", f.invariant, plan.expr.split_whitespace().collect::<Vec<_>>().join(" ")),
    }
}

pub fn replay_doc(property: &str, seed: u64, run: u64, plan: &Plan, f: &Fail) -> Json {
    Json::obj()
        .set("property", Json::s(property))
        .set("engine", Json::s("cronsim"))
        .set("invariant", Json::s(f.invariant))
        .set("seed", Json::Int(seed as i128))
        .set("run", Json::Int(run as i128))
        .set("plan", plan_to_json(plan))
        .set("failing_step", Json::u(f.step))
        .set("observed", Json::s(&f.observed))
        .set("expected", Json::s(&f.expected))
        .set(
            "panic",
            match &f.panic {
                Some(p) => Json::obj()
                    .set("msg", Json::s(&p.msg))
                    .set("at", Json::s(&format!("{}:{}", p.file, p.line))),
                None => Json::Null,
            },
        )
}

/// One run of the C17 search: generate, execute, minimise on failure.
pub fn one_run(seed: u64, run: u64, stats: &mut Stats) {
    let rs = rng::run_seed(seed, "C17", run);
    let plan = gen_plan(rs);
    stats.inc("c17.runs");
    stats.inc(&format!("c17.mode.{}", plan.mode.name()));
    stats.add("c17.events", plan.events.len() as u64);
    let want_sample = run < 3;
    crate::report::inflight_note(|| {
        let f = Fail { invariant: "process-death", step: 0, observed: "the process died while executing this plan".into(), expected: "alive".into(), panic: None };
        replay_doc("C17", seed, run, &plan, &f)
    });
    match execute(&plan, Some(stats), want_sample) {
        Ok(log) => {
            stats.add("c17.calls", log.calls);
            stats.add("c17.sim_seconds", (log.sim_ns / 1_000_000_000) as u64);
            stats.note("c17.loghash", log.hash);
            if want_sample {
                stats.samples.push((
                    run,
                    Json::obj()
                        .set("run", Json::Int(run as i128))
                        .set("plan", plan_to_json(&plan))
                        .set("trace", Json::Arr(log.trace.iter().map(|t| Json::s(t)).collect())),
                ));
            }
        }
        Err(f) => {
            if f.invariant.starts_with("HARNESS") {
                eprintln!("HARNESS-ERROR: {} {} {}", f.invariant, f.observed, f.expected);
                std::process::exit(2);
            }
            let (mp, mf) = minimise(&plan, &f);
            stats.violations.push(Violation {
                property: "C17",
                invariant: mf.invariant.to_string(),
                key: fail_key(&mp, &mf),
                what: format!(
                    "expr {:?} start {} step {}: observed {} expected {}",
                    mp.expr,
                    cal::fmt_unix(mp.start.secs as i64),
                    mf.step,
                    mf.observed,
                    mf.expected
                ),
                run,
                replay: replay_doc("C17", seed, run, &mp, &mf),
                replay_full: Some(replay_doc("C17", seed, run, &plan, &f)),
            });
        }
    }
}

// ------------------------------------------------------------------------------------------------
// Check entry points
// ------------------------------------------------------------------------------------------------

pub fn hang_report(property: &str, seed: u64, run: u64, doc: Json) -> ! {
    let dir = crate::report::verif_dir().join("replays");
    let _ = std::fs::create_dir_all(&dir);
    let path = dir.join(format!("{}-s{}-r{}-hang.json", property, seed, run));
    let _ = std::fs::write(&path, doc.pretty());
    println!("SUSPECT-HANG property={} replay={}", property, path.display());
    std::process::exit(4);
}

pub fn check(tier: &str, seed: u64) -> i32 {
    let t0 = std::time::Instant::now();
    let n_runs: u64 = match tier {
        "quick" => 300_000,
        _ => 60_000_000,
    };
    let n_runs = std::env::var("VERIF_RUNS").ok().and_then(|v| v.parse().ok()).unwrap_or(n_runs);
    let mut stats = crate::runner::run_parallel(
        n_runs,
        |run, stats| one_run(seed, run, stats),
        |run| {
            let plan = gen_plan(rng::run_seed(seed, "C17", run));
            let f = Fail {
                invariant: "I0-hang",
                step: 0,
                observed: "a call into CronSchedule did not return within the watchdog limit".into(),
                expected: "next() returns".into(),
                panic: None,
            };
            hang_report("C17", seed, run, replay_doc("C17", seed, run, &plan, &f));
        },
    );
    let wall = t0.elapsed().as_secs_f64();
    let mut violations = std::mem::take(&mut stats.violations);
    let outcome = crate::report::report_violations("C17", seed, &mut violations);
    let runs = stats.get("c17.runs");
    let calls = stats.get("c17.calls");
    let coverage = Json::obj()
        .set("evaluations", Json::Int(runs as i128))
        .set("distinct_nontrivial", Json::Int(stats.distinct("c17.interleavings") as i128))
        .set(
            "rule",
            Json::s("one evaluation = one simulated run: (expression from the documented grammar that can fire, second-granular start instant, <= 40 events of clock advance / next() / clone / crash-restart), executed against the real CronSchedule through the clock seam and checked against the reference model after every step. distinct_nontrivial counts distinct event-kind sequences (hash of the executed sequence of advance/next(p)/clone/restart kinds) among runs with at least one judged next() call; the distinct-value sets stop growing at 2,000,000 entries, so in the thorough tier this is a lower bound"),
        )
        .set("samples", Json::Arr(stats.samples.iter().map(|(_, j)| j.clone()).collect()))
        .set("next_calls_checked", Json::Int(calls as i128))
        .set("events_executed", Json::Int(stats.get("c17.events") as i128))
        .set("simulated_seconds_covered", Json::Int(stats.get("c17.sim_seconds") as i128))
        .set("simulated_years_covered", Json::Float(stats.get("c17.sim_seconds") as f64 / 31_556_952.0))
        .set("runs_per_hour", Json::Int((runs as f64 / wall.max(1e-9) * 3600.0) as i128))
        .set("distinct_states", Json::Int(stats.distinct("c17.states") as i128))
        .set("state_measure", Json::s("(which fields are restricted, carry class minute/hour/day/month/year of the answer, last result ahead of/equal to/behind/absent vs clock, result is 29 Feb, crossed a non-leap century February, clone/restart in history)"))
        .set("distinct_event_logs", Json::Int(stats.distinct("c17.loghash") as i128))
        .set("modes", stats.counters_json("c17.mode."))
        .set("faults", stats.counters_json("c17.fault."))
        .set("reach", stats.counters_json("c17.reach."))
        .set("carry", stats.counters_json("c17.carry."))
        .set("unjudged", stats.counters_json("c17.unjudged."))
        .set("reach_probes_at_zero", crate::report::probes_at_zero(&stats, &["c17.reach.clock_equals_last","c17.reach.clock_overtook_2plus_results","c17.reach.crossed_nonleap_century_february","c17.reach.result_is_feb29","c17.reach.three_calls_with_frozen_clock","c17.reach.last_ahead_of_clock","c17.fault.crash_restart.injected","c17.fault.clock_overtook_results.effective","c17.event.clone","c17.carry.year","c17.carry.month"]))
        .set("real_components", Json::s("all of astrolabe: cron.rs (parse, Iterator::next, Clone), datetime.rs, util/**"))
        .set("stubbed_components", Json::s("the leaf call SystemTime::now() (simulated CLOCK_REALTIME); nothing else"))
        .set("exhaustive", Json::Bool(false))
        .set("known_findings_matched", Json::u(outcome.known))
        .set("threads", Json::u(crate::runner::threads()));
    crate::report::write_evidence(
        "C17",
        tier,
        seed,
        "exploration",
        coverage,
        &[
            "reference model: own calendar (Hinnant), own grammar reader, day rule 'restricted = denotes fewer than all values'",
            "feature `verif` only re-routes SystemTime::now()",
            "clock never before 1970 or past 2400-01-01; backward steps recorded but not judged",
        ],
        wall,
        outcome.reported,
    );
    println!(
        "C17 {}: {} runs, {} next() calls checked, {} distinct event sequences, {} states, {:.1}s, violations={}",
        tier,
        runs,
        calls,
        stats.distinct("c17.interleavings"),
        stats.distinct("c17.states"),
        wall,
        outcome.reported
    );
    outcome.exit_code
}

pub fn replay(doc: &Json) -> i32 {
    let plan = match doc.get("plan").ok_or("no plan".to_string()).and_then(plan_from_json) {
        Ok(p) => p,
        Err(e) => {
            eprintln!("HARNESS-ERROR: bad replay file: {}", e);
            return 2;
        }
    };
    let want_inv = doc.get("invariant").and_then(|v| v.str()).unwrap_or("");
    let want_obs = doc.get("observed").and_then(|v| v.str()).unwrap_or("");
    let want_step = doc.get("failing_step").and_then(|v| v.int()).unwrap_or(-1);
    let property = doc.get("property").and_then(|v| v.str()).unwrap_or("C17").to_string();
    crate::world::install_panic_hook();
    match execute(&plan, None, true) {
        Ok(log) => {
            for t in &log.trace {
                println!("{}", t);
            }
            println!("replay: the plan executes without violating any invariant");
            0
        }
        Err(f) => {
            println!("replay: [{}] step {} observed {} expected {}", f.invariant, f.step, f.observed, f.expected);
            if f.invariant == want_inv && (want_inv == "I0-hang" || (f.observed == want_obs && f.step as i128 == want_step)) {
                println!("replay: reproduced exactly");
            } else {
                println!("replay: a violation occurs but differs from the recorded one (recorded: [{}] step {} observed {})", want_inv, want_step, want_obs);
            }
            1
        }
    }
}
