//! dst: deterministic simulation with fault injection for astrolabe.

mod c16;
mod cal;
mod crongen;
mod faults;
mod cronmodel;
mod cronsim;
mod json;
mod report;
mod rng;
mod runner;
mod tzgen;
mod tzref;
mod tzsim;
mod world;

#[global_allocator]
static ALLOC: world::WatchAlloc = world::WatchAlloc;

fn seed() -> u64 {
    std::env::var("VERIF_SEED")
        .ok()
        .and_then(|v| v.trim().parse::<u64>().ok())
        .unwrap_or(1)
}

fn usage() -> ! {
    eprintln!("usage: dst <c16|c17|c18|c19> <quick|thorough> | replay <file> | selftest <oracle|determinism> | loghash <prop> <runs>");
    std::process::exit(2);
}

fn main() {
    let args: Vec<String> = std::env::args().collect();
    if args.len() < 2 {
        usage();
    }
    let code = match args[1].as_str() {
        "c16" => c16::check(args.get(2).map(|s| s.as_str()).unwrap_or("quick"), seed()),
        "c17" => cronsim::check(args.get(2).map(|s| s.as_str()).unwrap_or("quick"), seed()),
        "c18" => tzsim::check(args.get(2).map(|s| s.as_str()).unwrap_or("quick"), seed()),
        "c19" => faults::check(args.get(2).map(|s| s.as_str()).unwrap_or("quick"), seed()),
        "replay" => {
            let path = args.get(2).unwrap_or_else(|| usage());
            let text = match std::fs::read_to_string(path) {
                Ok(t) => t,
                Err(e) => {
                    eprintln!("HARNESS-ERROR: cannot read {}: {}", path, e);
                    std::process::exit(2);
                }
            };
            let doc = match json::Json::parse(&text) {
                Ok(d) => d,
                Err(e) => {
                    eprintln!("HARNESS-ERROR: cannot parse {}: {}", path, e);
                    std::process::exit(2);
                }
            };
            let engine = doc.get("engine").and_then(|v| v.str()).unwrap_or("").to_string();
            let property = doc.get("property").and_then(|v| v.str()).unwrap_or("?").to_string();
            let path2 = path.clone();
            let property2 = property.clone();
            let code = runner::with_watchdog(
                || match engine.as_str() {
                    "cronsim" => cronsim::replay(&doc),
                    "c16" => c16::replay(&doc),
                    "tzsim" => tzsim::replay(&doc),
                    "faults" => faults::replay(&doc),
                    _ => {
                        eprintln!("HARNESS-ERROR: unknown engine {:?}", engine);
                        2
                    }
                },
                move || {
                    println!("replay: a call into astrolabe did not return within the watchdog limit (hang reproduced)");
                    println!("VIOLATION property={} replay={}", property, path2);
                },
            );
            if code == 1 {
                println!("VIOLATION property={} replay={}", property2, path);
            }
            code
        }
        "selftest" => match args.get(2).map(|s| s.as_str()) {
            Some("oracle") => {
                let mut code = 0;
                match cal::selftest() {
                    Ok(n) => println!("selftest calendar: {} checks ok", n),
                    Err(e) => {
                        eprintln!("HARNESS-ERROR: calendar selftest: {}", e);
                        code = 2;
                    }
                }
                match cronmodel::selftest(seed(), 20_000) {
                    Ok(n) => println!("selftest cron model vs brute force: {} cases ok", n),
                    Err(e) => {
                        eprintln!("HARNESS-ERROR: cron model selftest: {}", e);
                        code = 2;
                    }
                }
                code
            }
            Some("determinism") => selftest_determinism(args.get(3).map(|s| s.as_str()).unwrap_or("quick")),
            _ => usage(),
        },
        "xval-dump" => {
            let dir = std::path::PathBuf::from(args.get(2).unwrap_or_else(|| usage()));
            let n_synth: u64 = args.get(3).and_then(|v| v.parse().ok()).unwrap_or(2000);
            let n = tzsim::xval_dump(&dir, seed(), n_synth);
            println!("xval-dump: {} files written to {}", n, dir.display());
            0
        }
        "dump" => {
            let sub = args.get(2).map(|s| s.as_str()).unwrap_or("");
            let tier = args.get(3).map(|s| s.as_str()).unwrap_or("quick");
            let idx: u64 = args.get(4).and_then(|v| v.parse().ok()).unwrap_or(0);
            let doc = dump(sub, tier, idx);
            println!("{}", doc.pretty());
            0
        }
        "loghash" => {
            // prints one line per run: run index and hash of its complete event log
            let prop = args.get(2).map(|s| s.as_str()).unwrap_or("c17").to_string();
            let n: u64 = args.get(3).and_then(|v| v.parse().ok()).unwrap_or(1000);
            world::install_panic_hook();
            let stats = runner::run_parallel(
                n,
                |run, stats| {
                    let h = match prop.as_str() {
                        "c17" => {
                            let plan = cronsim::gen_plan(rng::run_seed(seed(), "C17", run));
                            match cronsim::execute(&plan, None, false) {
                                Ok(l) => l.hash,
                                Err(f) => report::fnv(format!("{:?}", f).as_bytes()),
                            }
                        }
                        other => loghash_other(other, seed(), run),
                    };
                    stats.samples.push((run, json::Json::Int(h as i128)));
                },
                |_| {},
            );
            for (r, h) in &stats.samples {
                println!("{} {}", r, h.int().unwrap_or(0));
            }
            0
        }
        _ => usage(),
    };
    std::process::exit(code);
}

fn loghash_other(prop: &str, seed: u64, run: u64) -> u64 {
    match prop {
        "c16" => {
            let mut rng = rng::Rng::new(rng::run_seed(seed, "C16-random", run));
            let e = crongen::gen_expr(&mut rng, crongen::Flavor::Grammar);
            let mut st = report::Stats::default();
            let r = c16::check_expr(&e, rng::run_seed(seed, "C16-probe", run), c16::QUICK, &mut Some(&mut st));
            let mut h = report::fnv(format!("{:?}", r.err().map(|f| (f.invariant, f.observed))).as_bytes());
            for (k, v) in &st.counters {
                h = report::fnv_mix(h, report::fnv(k.as_bytes()));
                h = report::fnv_mix(h, *v);
            }
            h
        }
        "c18" => {
            let w = tzsim::work("quick");
            let mut st = report::Stats::default();
            // run index -> (corpus file | synthesized file), complete lookup log hashed
            let idx = if run % 2 == 0 { run / 2 % w.corpus.len().max(1) as u64 } else { w.corpus.len() as u64 + run };
            let h = tzsim::one_run(&w, seed, idx, &mut st).unwrap_or(0);
            let mut h = report::fnv_mix(h, st.violations.len() as u64);
            for (k, v) in &st.counters {
                h = report::fnv_mix(h, report::fnv(k.as_bytes()));
                h = report::fnv_mix(h, *v);
            }
            h
        }
        "c19" => {
            let mut w = faults::work("quick");
            w.enum_corpus.clear();
            w.n_enum_synth = 0;
            let mut st = report::Stats::default();
            // even runs: seeded fault sequences; odd runs: hostile footers
            let idx = if run % 2 == 0 { run / 2 } else { w.n_sequences + run / 2 };
            let h = faults::one_run(&w, seed, idx, &mut st);
            let mut h = report::fnv_mix(h, st.violations.len() as u64);
            for (k, v) in &st.counters {
                h = report::fnv_mix(h, report::fnv(k.as_bytes()));
                h = report::fnv_mix(h, *v);
            }
            h
        }
        _ => 0,
    }
}

fn dump(sub: &str, tier: &str, idx: u64) -> json::Json {
    let _ = tier;
    match sub {
        "c17" => {
            let plan = cronsim::gen_plan(rng::run_seed(seed(), "C17", idx));
            json::Json::obj()
                .set("property", json::Json::s("C17"))
                .set("engine", json::Json::s("cronsim"))
                .set("invariant", json::Json::s("process-death"))
                .set("seed", json::Json::Int(seed() as i128))
                .set("run", json::Json::Int(idx as i128))
                .set("plan", cronsim::plan_to_json(&plan))
        }
        _ => json::Json::obj()
            .set("property", json::Json::s(&sub.to_uppercase()))
            .set("invariant", json::Json::s("process-death"))
            .set("seed", json::Json::Int(seed() as i128))
            .set("tier", json::Json::s(tier))
            .set("run", json::Json::Int(idx as i128)),
    }
}

/// Runs `loghash` for every engine twice in separate processes, with 1 and with 16 workers, and
/// compares the complete per-run event-log hashes.
fn selftest_determinism(tier: &str) -> i32 {
    let exe = std::env::current_exe().expect("current_exe");
    let n = if tier == "quick" { "400" } else { "2000" };
    let mut code = 0;
    // quick: the seed in force; thorough: that seed and three others
    let seeds: Vec<u64> = if tier == "quick" { vec![seed()] } else { vec![seed(), seed() + 1, 77, 1_234_567] };
    for (prop, sd) in ENGINES_WITH_LOGHASH.iter().flat_map(|p| seeds.iter().map(move |s| (*p, *s))) {
        let run = |threads: &str, hang: &str| -> Option<String> {
            let out = std::process::Command::new(&exe)
                .args(["loghash", prop, n])
                .env("VERIF_SEED", sd.to_string())
                .env("VERIF_THREADS", threads)
                .env("VERIF_HANG_MS", hang)
                .output()
                .ok()?;
            if !out.status.success() {
                return None;
            }
            Some(String::from_utf8_lossy(&out.stdout).to_string())
        };
        let a = run("1", "60000");
        let b = run("16", "60000");
        let c = run("5", "60000");
        match (a, b, c) {
            (Some(a), Some(b), Some(c)) if a == b && b == c && a.lines().count() > 0 => {
                println!("selftest determinism {} seed {}: {} runs, 3 processes (1, 16 and 5 workers), event logs identical", prop, sd, a.lines().count());
            }
            (a, b, _) => {
                eprintln!("HARNESS-ERROR: determinism self-test failed for {} seed {}", prop, sd);
                if let (Some(a), Some(b)) = (a, b) {
                    for (la, lb) in a.lines().zip(b.lines()) {
                        if la != lb {
                            eprintln!("  first difference: {:?} vs {:?}", la, lb);
                            break;
                        }
                    }
                }
                code = 2;
            }
        }
    }
    code
}

const ENGINES_WITH_LOGHASH: &[&str] = &["c16", "c17", "c18", "c19"];
