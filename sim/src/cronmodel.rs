//! Reference model for cron: grammar R (what an expression denotes) and the next-fire function.
//! Written from the doc comment of `CronSchedule::parse` and the property text; shares no code
//! with `src/cron.rs` and uses its own calendar.

use crate::cal;

#[derive(Clone, Copy, Debug, PartialEq, Eq, Hash)]
pub struct Sets {
    pub min: u64,  // bits 0..=59
    pub hour: u32, // bits 0..=23
    pub dom: u32,  // bits 1..=31
    pub mon: u16,  // bits 1..=12
    pub dow: u8,   // bits 0..=6, 0 = Sunday
}

pub const ALL_MIN: u64 = (1u64 << 60) - 1;
pub const ALL_HOUR: u32 = (1u32 << 24) - 1;
pub const ALL_DOM: u32 = 0xFFFF_FFFE;
pub const ALL_MON: u16 = 0x1FFE;
pub const ALL_DOW: u8 = 0x7F;

#[derive(Clone, Debug, PartialEq)]
pub enum Verdict {
    Accept(Sets),
    Reject(String),
    /// The documented grammar does not settle this form: never judged.
    Undetermined(String),
}

#[derive(Clone, Copy, PartialEq)]
enum Kind {
    Plain,
    Month,
    Dow,
}

struct FieldSpec {
    lo: u32,
    hi: u32,
    kind: Kind,
}

const FIELDS: [FieldSpec; 5] = [
    FieldSpec { lo: 0, hi: 59, kind: Kind::Plain },
    FieldSpec { lo: 0, hi: 23, kind: Kind::Plain },
    FieldSpec { lo: 1, hi: 31, kind: Kind::Plain },
    FieldSpec { lo: 1, hi: 12, kind: Kind::Month },
    FieldSpec { lo: 0, hi: 6, kind: Kind::Dow },
];

pub const MONTH_NAMES: [&str; 12] = [
    "jan", "feb", "mar", "apr", "may", "jun", "jul", "aug", "sep", "oct", "nov", "dec",
];
pub const DOW_NAMES: [&str; 7] = ["sun", "mon", "tue", "wed", "thu", "fri", "sat"];

enum Val {
    /// A number as written (not yet range checked), with `leading_zero` noted.
    Num(u128, bool),
    Name(u32),
    Bad(String),
}

fn parse_val(s: &str, kind: Kind) -> Val {
    if s.is_empty() {
        return Val::Bad("empty value".into());
    }
    if s.bytes().all(|b| b.is_ascii_digit()) {
        let lead = s.len() > 1 && s.starts_with('0');
        // saturate absurdly long numbers
        let n = s.parse::<u128>().unwrap_or(u128::MAX);
        return Val::Num(n, lead);
    }
    if s.bytes().all(|b| b.is_ascii_alphabetic()) {
        let l = s.to_ascii_lowercase();
        match kind {
            Kind::Month => {
                if let Some(i) = MONTH_NAMES.iter().position(|n| *n == l) {
                    return Val::Name(i as u32 + 1);
                }
            }
            Kind::Dow => {
                if let Some(i) = DOW_NAMES.iter().position(|n| *n == l) {
                    return Val::Name(i as u32);
                }
            }
            Kind::Plain => {}
        }
        return Val::Bad(format!("unknown name {:?}", s));
    }
    Val::Bad(format!("stray character in {:?}", s))
}

enum FieldVerdict {
    Ok(u64),
    Reject(String),
    Undet(String),
}

fn parse_field(field: &str, spec: &FieldSpec) -> FieldVerdict {
    let mut set: u64 = 0;
    let mut undet: Option<String> = None;
    if field.is_empty() {
        return FieldVerdict::Reject("empty field".into());
    }
    for item in field.split(',') {
        if item.is_empty() {
            return FieldVerdict::Reject("empty item".into());
        }
        if item == "*" {
            for v in spec.lo..=spec.hi {
                set |= 1 << v;
            }
            continue;
        }
        if let Some(step) = item.strip_prefix("*/") {
            if step.is_empty() || !step.bytes().all(|b| b.is_ascii_digit()) {
                return FieldVerdict::Reject(format!("step {:?} is not a number", step));
            }
            let n = step.parse::<u128>().unwrap_or(u128::MAX);
            if n == 0 {
                return FieldVerdict::Reject("zero step".into());
            }
            if step.len() > 1 && step.starts_with('0') {
                undet.get_or_insert(format!("step with leading zero {:?}", step));
                continue;
            }
            if n > spec.hi as u128 + 1 {
                undet.get_or_insert(format!("step {} larger than max+1", n));
                continue;
            }
            let mut v = spec.lo;
            while v <= spec.hi {
                set |= 1 << v;
                v += n as u32;
            }
            continue;
        }
        if item.starts_with('*') {
            return FieldVerdict::Reject(format!("stray character after '*' in {:?}", item));
        }
        let parts: Vec<&str> = item.split('-').collect();
        match parts.len() {
            1 => match parse_val(parts[0], spec.kind) {
                Val::Bad(r) => return FieldVerdict::Reject(r),
                Val::Name(v) => set |= 1 << v,
                Val::Num(n, lead) => {
                    let hi = if spec.kind == Kind::Dow { 7 } else { spec.hi };
                    if n < spec.lo as u128 || n > hi as u128 {
                        return FieldVerdict::Reject(format!("value {} outside the range", n));
                    }
                    if lead {
                        undet.get_or_insert(format!("leading zero in {:?}", item));
                        continue;
                    }
                    let v = if spec.kind == Kind::Dow && n == 7 { 0 } else { n as u32 };
                    set |= 1 << v;
                }
            },
            2 => {
                let a = parse_val(parts[0], spec.kind);
                let b = parse_val(parts[1], spec.kind);
                if let Val::Bad(r) = &a {
                    return FieldVerdict::Reject(r.clone());
                }
                if let Val::Bad(r) = &b {
                    return FieldVerdict::Reject(r.clone());
                }
                let hi = if spec.kind == Kind::Dow { 7 } else { spec.hi };
                let mut lead = false;
                let mut named = 0;
                let mut numbered = 0;
                let mut get = |v: &Val| -> Result<u32, String> {
                    match v {
                        Val::Num(n, l) => {
                            numbered += 1;
                            lead |= *l;
                            if *n < spec.lo as u128 || *n > hi as u128 {
                                Err(format!("value {} outside the range", n))
                            } else {
                                Ok(*n as u32)
                            }
                        }
                        Val::Name(v) => {
                            named += 1;
                            Ok(*v)
                        }
                        Val::Bad(_) => unreachable!(),
                    }
                };
                let av = match get(&a) {
                    Ok(v) => v,
                    Err(r) => return FieldVerdict::Reject(r),
                };
                let bv = match get(&b) {
                    Ok(v) => v,
                    Err(r) => return FieldVerdict::Reject(r),
                };
                if lead {
                    undet.get_or_insert(format!("leading zero in {:?}", item));
                    continue;
                }
                if named > 0 && numbered > 0 {
                    undet.get_or_insert(format!("range mixing a name and a number {:?}", item));
                    continue;
                }
                if named == 2 {
                    if av > bv {
                        undet.get_or_insert(format!("name range that wraps {:?}", item));
                        continue;
                    }
                } else if spec.kind == Kind::Dow && av == 7 && bv != 7 {
                    undet.get_or_insert(format!("range starting at 7 {:?}", item));
                    continue;
                } else if av > bv {
                    return FieldVerdict::Reject(format!("range start after end {:?}", item));
                }
                for v in av..=bv {
                    let v = if spec.kind == Kind::Dow && v == 7 { 0 } else { v };
                    set |= 1 << v;
                }
            }
            _ => return FieldVerdict::Reject(format!("more than one '-' in {:?}", item)),
        }
    }
    match undet {
        Some(u) => FieldVerdict::Undet(u),
        None => FieldVerdict::Ok(set),
    }
}

/// The reference reading of a cron expression.
pub fn reference_parse(expr: &str) -> Verdict {
    // Fields: separated by whitespace. Space and tab are unquestionably whitespace in a crontab
    // line; any other separator (newline, CR, FF, VT, Unicode spaces) is left undetermined.
    let is_ws = |c: char| matches!(c, ' ' | '\t');
    let exotic_ws = expr.chars().any(|c| !is_ws(c) && c.is_whitespace());
    let fields: Vec<&str> = expr.split(is_ws).filter(|f| !f.is_empty()).collect();
    if exotic_ws {
        return Verdict::Undetermined("separator other than space or tab".into());
    }
    if fields.len() != 5 {
        return Verdict::Reject(format!("{} fields", fields.len()));
    }
    let mut sets = [0u64; 5];
    let mut undet = None;
    for (i, f) in fields.iter().enumerate() {
        match parse_field(f, &FIELDS[i]) {
            FieldVerdict::Ok(s) => sets[i] = s,
            FieldVerdict::Reject(r) => return Verdict::Reject(format!("field {}: {}", i + 1, r)),
            FieldVerdict::Undet(u) => {
                undet.get_or_insert(format!("field {}: {}", i + 1, u));
            }
        }
    }
    if let Some(u) = undet {
        return Verdict::Undetermined(u);
    }
    if expr.starts_with(is_ws) || expr.ends_with(is_ws) {
        return Verdict::Undetermined("leading or trailing whitespace".into());
    }
    Verdict::Accept(Sets {
        min: sets[0],
        hour: sets[1] as u32,
        dom: sets[2] as u32,
        mon: sets[3] as u16,
        dow: sets[4] as u8,
    })
}

impl Sets {
    pub fn dom_restricted(&self) -> bool {
        self.dom != ALL_DOM
    }
    pub fn dow_restricted(&self) -> bool {
        self.dow != ALL_DOW
    }

    pub fn day_matches(&self, d: u32, wd: u32) -> bool {
        let in_dom = self.dom >> d & 1 == 1;
        let in_dow = self.dow >> wd & 1 == 1;
        match (self.dom_restricted(), self.dow_restricted()) {
            (true, true) => in_dom || in_dow,
            (true, false) => in_dom,
            (false, true) => in_dow,
            (false, false) => true,
        }
    }

    /// Does the whole minute `m` (minutes since the Unix epoch) match?
    pub fn matches_minute(&self, m: i64) -> bool {
        let days = m.div_euclid(1440);
        let mod_ = m.rem_euclid(1440);
        let (_, mo, d) = cal::civil_from_days(days);
        let wd = cal::weekday_from_days(days);
        self.mon >> mo & 1 == 1
            && self.day_matches(d, wd)
            && self.hour >> (mod_ / 60) & 1 == 1
            && self.min >> (mod_ % 60) & 1 == 1
    }

    /// Can the schedule ever fire?
    pub fn satisfiable(&self) -> bool {
        if self.min == 0 || self.hour == 0 || self.mon == 0 {
            return false;
        }
        if !self.dom_restricted() {
            // the weekday alone decides (or nothing does)
            return self.dow != 0;
        }
        if self.dow_restricted() && self.dow != 0 {
            return true; // OR rule: a weekday match in any matching month
        }
        for m in 1..=12u32 {
            if self.mon >> m & 1 == 1 {
                let maxd = match m {
                    2 => 29,
                    4 | 6 | 9 | 11 => 30,
                    _ => 31,
                };
                for d in 1..=maxd {
                    if self.dom >> d & 1 == 1 {
                        return true;
                    }
                }
            }
        }
        false
    }

    /// Earliest matching minute strictly after `base` (minutes since the epoch). Scans at most
    /// `max_days` days; `None` if nothing matched inside that horizon.
    pub fn next_after(&self, base: i64, max_days: i64) -> Option<i64> {
        let start = base + 1;
        let first_day = start.div_euclid(1440);
        let mut first_min_of_day = start.rem_euclid(1440);
        let mut day = first_day;
        while day < first_day + max_days {
            let (_, mo, d) = cal::civil_from_days(day);
            if self.mon >> mo & 1 == 1 && self.day_matches(d, cal::weekday_from_days(day)) {
                let mut h = first_min_of_day / 60;
                let mut mi = first_min_of_day % 60;
                while h < 24 {
                    if self.hour >> h & 1 == 1 {
                        while mi < 60 {
                            if self.min >> mi & 1 == 1 {
                                return Some(day * 1440 + h * 60 + mi);
                            }
                            mi += 1;
                        }
                    }
                    h += 1;
                    mi = 0;
                }
            }
            day += 1;
            first_min_of_day = 0;
        }
        None
    }

    /// Which carry the answer needed, for the state measure: 0 minute, 1 hour, 2 day, 3 month, 4 year.
    pub fn carry_class(base: i64, result: i64) -> u8 {
        let (by, bm, bd, bh, _, _) = cal::civil_from_unix(base * 60);
        let (ry, rm, rd, rh, _, _) = cal::civil_from_unix(result * 60);
        if ry != by {
            4
        } else if rm != bm {
            3
        } else if rd != bd {
            2
        } else if rh != bh {
            1
        } else {
            0
        }
    }

    pub fn describe(&self) -> String {
        fn bits(v: u64, lo: u32, hi: u32) -> String {
            let mut parts = Vec::new();
            let mut i = lo;
            while i <= hi {
                if v >> i & 1 == 1 {
                    let s = i;
                    while i < hi && v >> (i + 1) & 1 == 1 {
                        i += 1;
                    }
                    if s == i {
                        parts.push(format!("{}", s));
                    } else {
                        parts.push(format!("{}-{}", s, i));
                    }
                }
                i += 1;
            }
            parts.join(",")
        }
        format!(
            "min={{{}}} hour={{{}}} dom={{{}}} mon={{{}}} dow={{{}}}",
            bits(self.min, 0, 59),
            bits(self.hour as u64, 0, 23),
            bits(self.dom as u64, 1, 31),
            bits(self.mon as u64, 1, 12),
            bits(self.dow as u64, 0, 6)
        )
    }
}

/// Horizon used everywhere: a day-of-month-29 February schedule can be 8 years apart across a
/// non-leap century year; 12 years is safely beyond every satisfiable schedule's gap.
pub const HORIZON_DAYS: i64 = 12 * 366;

/// Self-test: `next_after` against a brute-force minute scan built on `matches_minute`.
pub fn selftest(seed: u64, cases: u64) -> Result<u64, String> {
    use crate::crongen;
    use crate::rng::Rng;
    let mut rng = Rng::new(seed ^ 0xC0FFEE);
    let mut n = 0;
    let mut tried = 0;
    while n < cases && tried < cases * 20 {
        tried += 1;
        let expr = crongen::gen_expr(&mut rng, crongen::Flavor::Dense);
        let sets = match reference_parse(&expr) {
            Verdict::Accept(s) => s,
            _ => continue,
        };
        if !sets.satisfiable() {
            continue;
        }
        let base = rng.range(0, (2400 - 1970) * 365 * 1440);
        let want = sets.next_after(base, HORIZON_DAYS);
        // brute force, bounded to 60 days of minutes
        let mut brute = None;
        for m in base + 1..base + 1 + 60 * 1440 {
            if sets.matches_minute(m) {
                brute = Some(m);
                break;
            }
        }
        match (want, brute) {
            (Some(w), Some(b)) if w == b => n += 1,
            (Some(w), None) if w > base + 60 * 1440 => n += 1,
            (w, b) => {
                return Err(format!(
                    "model disagreement on {:?} base {}: next_after={:?} brute={:?}",
                    expr, base, w, b
                ))
            }
        }
    }
    Ok(n)
}

impl Sets {
    /// All matching minutes m with from_excl < m <= to_incl, by scanning days and expanding the
    /// hour/minute sets (independent of `next_after`'s early exit). Stops after `cap` entries.
    pub fn enumerate_window(&self, from_excl: i64, to_incl: i64, cap: usize) -> Vec<i64> {
        let mut out = Vec::new();
        if to_incl <= from_excl {
            return out;
        }
        let first_day = (from_excl + 1).div_euclid(1440);
        let last_day = to_incl.div_euclid(1440);
        for day in first_day..=last_day {
            let (_, mo, d) = cal::civil_from_days(day);
            if self.mon >> mo & 1 == 0 || !self.day_matches(d, cal::weekday_from_days(day)) {
                continue;
            }
            for h in 0..24i64 {
                if self.hour >> h & 1 == 0 {
                    continue;
                }
                for mi in 0..60i64 {
                    if self.min >> mi & 1 == 0 {
                        continue;
                    }
                    let m = day * 1440 + h * 60 + mi;
                    if m > from_excl && m <= to_incl {
                        out.push(m);
                        if out.len() >= cap {
                            return out;
                        }
                    }
                }
            }
        }
        out
    }
}
