//! Own PRNG: splitmix64 seeding xoshiro256**. One integer decides everything.

#[derive(Clone, Debug)]
pub struct Rng {
    s: [u64; 4],
}

pub fn splitmix64(state: &mut u64) -> u64 {
    *state = state.wrapping_add(0x9E37_79B9_7F4A_7C15);
    let mut z = *state;
    z = (z ^ (z >> 30)).wrapping_mul(0xBF58_476D_1CE4_E5B9);
    z = (z ^ (z >> 27)).wrapping_mul(0x94D0_49BB_1331_11EB);
    z ^ (z >> 31)
}

/// Derives the seed of one run from (VERIF_SEED, property tag, run index).
pub fn run_seed(seed: u64, tag: &str, run: u64) -> u64 {
    let mut st = seed ^ 0x5EED_0000_0000_0000;
    let mut acc = splitmix64(&mut st);
    for b in tag.bytes() {
        st ^= b as u64;
        acc ^= splitmix64(&mut st);
    }
    st ^= run.wrapping_mul(0xD6E8_FEB8_6659_FD93);
    acc ^ splitmix64(&mut st)
}

impl Rng {
    pub fn new(seed: u64) -> Self {
        let mut st = seed;
        let s = [
            splitmix64(&mut st),
            splitmix64(&mut st),
            splitmix64(&mut st),
            splitmix64(&mut st),
        ];
        Rng { s }
    }

    pub fn next_u64(&mut self) -> u64 {
        let result = self.s[1].wrapping_mul(5).rotate_left(7).wrapping_mul(9);
        let t = self.s[1] << 17;
        self.s[2] ^= self.s[0];
        self.s[3] ^= self.s[1];
        self.s[1] ^= self.s[2];
        self.s[0] ^= self.s[3];
        self.s[2] ^= t;
        self.s[3] = self.s[3].rotate_left(45);
        result
    }

    /// Uniform in 0..n (n > 0).
    pub fn below(&mut self, n: u64) -> u64 {
        debug_assert!(n > 0);
        // multiply-shift; bias is negligible for the n used here
        ((self.next_u64() as u128 * n as u128) >> 64) as u64
    }

    /// Uniform in lo..=hi.
    pub fn range(&mut self, lo: i64, hi: i64) -> i64 {
        debug_assert!(lo <= hi);
        let span = (hi as i128 - lo as i128 + 1) as u128;
        if span > u64::MAX as u128 {
            return self.next_u64() as i64;
        }
        (lo as i128 + self.below(span as u64) as i128) as i64
    }

    pub fn usize(&mut self, n: usize) -> usize {
        self.below(n as u64) as usize
    }

    /// True with probability num/den.
    pub fn chance(&mut self, num: u64, den: u64) -> bool {
        self.below(den) < num
    }

    pub fn pick<'a, T>(&mut self, items: &'a [T]) -> &'a T {
        &items[self.usize(items.len())]
    }

    /// Index drawn according to integer weights.
    pub fn weighted(&mut self, weights: &[u64]) -> usize {
        let total: u64 = weights.iter().sum();
        let mut x = self.below(total);
        for (i, w) in weights.iter().enumerate() {
            if x < *w {
                return i;
            }
            x -= *w;
        }
        weights.len() - 1
    }
}
