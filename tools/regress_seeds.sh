#!/usr/bin/env bash
# Regression over every kept change: each seeded change (/verif/seeded/*/patch.diff) and each
# deliberate edit (/verif/sensitivity/*.diff) is applied to a scratch copy of the repository
# (VERIF_REPO, e.g. the snapshot of `vp run --with-repo`), the quick check of its property must
# exit 1; each property-preserving change (/verif/preserving/*/patch.diff) must leave both checks
# of its area at exit 0.   usage: VERIF_REPO=<scratch repo> tools/regress_seeds.sh
set -u
cd "$(dirname "${BASH_SOURCE[0]}")/.." || exit 2
REPO="${VERIF_REPO:?set VERIF_REPO to a scratch checkout of the repository}"
[ "$REPO" != /repo ] || { echo "refusing to patch /repo itself"; exit 2; }
bad=0; n=0
run_one() { # <diff> <ID> <expected exit> <name>
  (cd "$REPO" && git checkout -q -- . && git clean -fdq src tests && git apply "$1") || { echo "$4: patch does not apply"; bad=1; return; }
  out=$(./check "$2" quick 2>&1); rc=$?
  if [ "$rc" -eq "$3" ]; then echo "ok   $4 $2 exit=$rc"; else echo "FAIL $4 $2 exit=$rc (expected $3)"; echo "$out" | tail -5; bad=1; fi
  n=$((n+1))
}
for d in seeded/*/; do
  id=$(sed -n 's/.*"regress_with": *"\([^"]*\)".*/\1/p' "$d/meta.json" | head -1)
  [ -n "$id" ] || id=$(sed -n 's/.*"breaks_property": *"\([^"]*\)".*/\1/p' "$d/meta.json" | head -1)
  exp=$(sed -n 's/.*"regress_expect": *\([0-9]*\).*/\1/p' "$d/meta.json" | head -1)
  [ -n "$id" ] && run_one "$PWD/$d/patch.diff" "$id" "${exp:-1}" "$(basename $d)"
done
for f in sensitivity/*.diff; do
  name=$(basename "$f" .diff)
  case "$name" in c16-names-case-sensitive|c17-last-ge-to-gt) exp=0 ;; *) exp=1 ;; esac
  id=$(echo "$name" | cut -d- -f1 | tr a-z A-Z)
  run_one "$PWD/$f" "$id" $exp "$name"
done
for d in preserving/*/; do
  name=$(basename "$d")
  case "$name" in cron-*) ids="C16 C17" ;; *) ids="C18 C19" ;; esac
  for id in $ids; do run_one "$PWD/$d/patch.diff" "$id" 0 "$name"; done
done
(cd "$REPO" && git checkout -q -- . && git clean -fdq src tests)
echo "regression: $n runs, $([ $bad -eq 0 ] && echo all as expected || echo SOME NOT AS EXPECTED)"
exit $bad
