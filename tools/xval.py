#!/usr/bin/env python3
"""Cross-validation of the simulator's RFC 8536 / POSIX-TZ reference evaluator against two
implementations that are independent of it and of astrolabe:

  * CPython's zoneinfo (reads the whole TZif file: transition table + footer).  CPython 3.11's
    _DayOffset is off by one for the zero-based `n` form and shifts J59 in leap years (checked
    against glibc), so instants governed by a footer with a Jn / n date are not compared with it.
  * glibc's POSIX-TZ implementation via `TZ=<footer> date -f`, for every instant governed by a
    footer rule (all date forms, extended hours) from 1972 on (glibc does not evaluate rules for
    years before 1970).

usage: xval.py <dir>   - <dir> holds NNNNNN.tzif and NNNNNN.json files written by `dst xval-dump`
exit 0: all compared answers agree; exit 1: disagreement.
"""
import io, json, os, subprocess, sys, tempfile
from datetime import datetime, timezone, timedelta

try:
    # the pure-Python implementation: the C accelerator of CPython 3.11 crashed (SIGSEGV) on one of
    # the synthesized files
    from zoneinfo._zoneinfo import ZoneInfo
except ImportError:
    try:
        from zoneinfo import ZoneInfo
    except ImportError:
        ZoneInfo = None

EPOCH = datetime(1970, 1, 1, tzinfo=timezone.utc)

def glibc_offsets(footer, instants):
    with tempfile.NamedTemporaryFile("w", suffix=".ts", delete=False) as f:
        for t in instants:
            f.write("@%d\n" % t)
        name = f.name
    try:
        env = dict(os.environ, TZ=footer, LC_ALL="C")
        out = subprocess.run(["date", "-f", name, "+%::z"], env=env, capture_output=True, text=True)
        if out.returncode != 0:
            return None
        res = []
        for line in out.stdout.split():
            sign = -1 if line[0] == "-" else 1
            h, m, s = line[1:].split(":")
            res.append(sign * (int(h) * 3600 + int(m) * 60 + int(s)))
        return res if len(res) == len(instants) else None
    finally:
        os.unlink(name)

def main(d):
    files = sorted(f for f in os.listdir(d) if f.endswith(".json"))
    n_files = n_py = n_glibc = n_bad = n_skipped_jn = n_cpython_crash = 0
    have_date = subprocess.run(["date", "--version"], capture_output=True).returncode == 0
    for jf in files:
        doc = json.load(open(os.path.join(d, jf)))
        raw = open(os.path.join(d, jf[:-5] + ".tzif"), "rb").read()
        n_files += 1
        zi = None
        if ZoneInfo is not None:
            try:
                zi = ZoneInfo.from_file(io.BytesIO(raw), key=doc["label"])
            except IndexError:
                # CPython's _utcoff_to_dstoff indexes trans_idx[i + 1] past the end when the last
                # transition goes from one DST type to another: a loader defect, not a verdict
                n_cpython_crash += 1
            except Exception as e:
                print("xval: zoneinfo rejects %s (%s): %r" % (jf, doc["label"], e))
                n_bad += 1
        rows = list(zip(doc["instants"], doc["answers"], doc["by_footer"]))
        if zi is not None:
            for t, want, by_footer in rows:
                if want is None:
                    continue
                if by_footer and doc["footer_uses_J_or_n"]:
                    n_skipped_jn += 1
                    continue
                try:
                    dt = EPOCH + timedelta(seconds=t)
                    # offset applied by fromutc (UTC -> wall clock); .utcoffset() would re-resolve the
                    # ambiguous local time instead
                    local = dt.astimezone(zi)
                    got = int((local.replace(tzinfo=None) - dt.replace(tzinfo=None)).total_seconds())
                except (OverflowError, ValueError):
                    continue
                n_py += 1
                if got != want:
                    n_bad += 1
                    if n_bad <= 20:
                        print("xval: DISAGREE zoneinfo %s (%s) t=%d %s: reference %d, zoneinfo %d; footer %r"
                              % (jf, doc["label"], t, dt.isoformat(), want, got, doc.get("footer")))
        if have_date:
            # glibc computes rule dates only for years after 1970 (compute_change: `else t = 0`)
            sel = [(t, w) for t, w, bf in rows if bf and w is not None and t >= 31536000 * 2]
            if sel:
                got = glibc_offsets(doc["footer"], [t for t, _ in sel])
                if got is None:
                    print("xval: glibc date could not evaluate footer %r (%s)" % (doc["footer"], jf))
                    n_bad += 1
                else:
                    for (t, w), g in zip(sel, got):
                        n_glibc += 1
                        if g != w:
                            n_bad += 1
                            if n_bad <= 20:
                                print("xval: DISAGREE glibc %s t=%d: reference %d, glibc %d; footer %r"
                                      % (jf, t, w, g, doc["footer"]))
    print("xval: %d files; %d judged lookups compared with CPython zoneinfo, %d footer-governed lookups compared with glibc, "
          "%d skipped for CPython's J/n defect (covered by glibc), %d files CPython's loader crashed on, %d disagreements"
          % (n_files, n_py, n_glibc, n_skipped_jn, n_cpython_crash, n_bad))
    if ZoneInfo is None and not have_date:
        print("xval: neither zoneinfo nor GNU date available - nothing compared")
    return 1 if n_bad else 0

if __name__ == "__main__":
    sys.exit(main(sys.argv[1]))
