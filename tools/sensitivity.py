#!/usr/bin/env python3
"""Sensitivity round: apply deliberate property-breaking edits to /repo one at a time, check that
the repository's own test suite still passes (i.e. the edit is the kind the tests cannot see),
run the quick check of the property and record whether it raises a VIOLATION. /repo is restored
with `git checkout -- .` after each edit. Results go to /verif/sensitivity/results.json, the
edits themselves to /verif/sensitivity/<id>.diff.

usage: sensitivity.py [id-prefix ...]   (no argument: all)
"""
import json, os, subprocess, sys, time

REPO = "/repo"
VERIF = "/verif"

# (id, property, file, old, new, note)
MUTANTS = [
    # ---- C16 ----
    ("c16-range-end-ge", "C16", "src/cron.rs", "if start < min || end > max {", "if start < min || end >= max {", "range end == max rejected"),
    ("c16-minute-range-0-60", "C16", "src/cron.rs", "parse_cron_part(fields[0], 0, 59, &CronPartType::Numeric)", "parse_cron_part(fields[0], 0, 60, &CronPartType::Numeric)", "minute 60 accepted"),
    ("c16-month-name-no-plus1", "C16", "src/cron.rs", "Month::from_str(&value)? as u8 + 1", "(Month::from_str(&value)? as u8).max(1)", "month names shifted by one (jan=1, feb=1, mar=2 ...)"),
    ("c16-step-from-zero-dom", "C16", "src/cron.rs", "values.extend((min..=max).step_by(step as usize));", "values.extend((0..=max).step_by(step as usize).filter(|v| *v >= min));", "*/n starts at 0 instead of the field minimum"),
    ("c16-seven-not-sunday", "C16", "src/cron.rs", "CronPartType::DayOfWeek if value == \"7\" => 0,", "CronPartType::DayOfWeek if value == \"7\" => 6,", "7 means Saturday"),
    ("c16-field-count-lt", "C16", "src/cron.rs", "if fields.len() != 5 {", "if fields.len() < 5 {", "six fields accepted"),
    ("c16-names-case-sensitive", "C16", "src/cron.rs", "Ok(match s.to_lowercase().as_str() {\n            \"sun\"", "Ok(match s {\n            \"sun\"", "weekday names case sensitive after the first lower-casing is bypassed"),
    ("c16-single-value-max", "C16", "src/cron.rs", "if value < min || value > max {", "if value < min || value > max + 1 {", "single value max+1 accepted"),
    # ---- C17 ----
    ("c17-day-branch-keeps-hour", "C17", "src/cron.rs", "next = next.add_days(1).clear_until_hour();", "next = next.add_days(1).clear_until_minute();", "day carry keeps the hour"),
    ("c17-dom-len-30", "C17", "src/cron.rs", "let dom_restricted = self.days_of_month.len() != 31;", "let dom_restricted = self.days_of_month.len() < 30;", "1-30 counts as unrestricted"),
    ("c17-month-branch-keeps-day", "C17", "src/cron.rs", "next = next.add_months(1).clear_until_day();", "next = next.add_months(1).clear_until_hour();", "month carry keeps the day of month"),
    ("c17-now-not-truncated", "C17", "src/cron.rs", "let now = DateTime::now().clear_until_second();", "let now = DateTime::now();", "seconds of now leak into the result"),
    ("c17-or-to-and", "C17", "src/cron.rs", "&& !self.days_of_month.contains(&day_of_month)\n                && !self.days_of_week.contains(&day_of_week))", "&& (!self.days_of_month.contains(&day_of_month)\n                    || !self.days_of_week.contains(&day_of_week)))", "dom AND dow when both restricted"),
    ("c17-hour-branch-keeps-minute", "C17", "src/cron.rs", "next = next.add_hours(1).clear_until_minute();", "next = next.add_hours(1).clear_until_second();", "hour carry keeps the minute"),
    ("c17-last-equal-now-repeat", "C17", "src/cron.rs", "let mut next = last.add_minutes(1);", "let mut next = if self.last_schedule == Some(last) { last.add_minutes(1) } else { last };", "when the clock overtook the last result the current minute itself may be returned"),
    ("c17-clone-forgets-last", "C17", "src/cron.rs", "#[derive(Debug, Clone)]\npub struct CronSchedule {", "#[derive(Debug)]\npub struct CronSchedule {", "clone forgets last_schedule (manual Clone added below)"),
    ("c17-weekday-2100", "C17", "src/util/date/convert.rs", "    (days.unsigned_abs() % 7 + if monday_first { 0 } else { 1 }) % 7\n", "    let days = if days > 766_644 { days + 1 } else { days };\n    (days.unsigned_abs() % 7 + if monday_first { 0 } else { 1 }) % 7\n", "weekday off by one after 2100-02-28"),
    ("c17-last-ge-to-gt", "C17", "src/cron.rs", "Some(last) if last >= now => last,", "Some(last) if last > now => last,", "EQUIVALENT mutant: must stay silent"),
    # ---- C18 ----
    ("c18-transition-lt", "C18", "src/local/timezone.rs", "if transition.unix_leap_time <= timestamp {", "if transition.unix_leap_time < timestamp {", "previous type at the transition instant (the original defect)"),
    ("c18-footer-ignored", "C18", "src/local/timezone.rs", "Some(last) => self.extra_rule.is_some() && last.unix_leap_time <= timestamp,", "Some(_) => false,", "footer ignored when a table exists (the original defect)"),
    ("c18-j60-leap", "C18", "src/util/date/convert.rs", "if ignore_leap && is_leap_year(year) && doy >= 59 {", "if ignore_leap && is_leap_year(year) && doy >= 60 {", "J60 in leap years (the original defect)"),
    ("c18-default-dst-plus", "C18", "src/local/transition_rule.rs", "Some(&b',') => std_offset - 3600,", "Some(&b',') => std_offset + 3600,", "default DST offset on the wrong side"),
    ("c18-default-rule-time-1am", "C18", "src/local/transition_rule.rs", "    } else {\n        2 * 3600\n    };", "    } else {\n        3600\n    };", "default rule time 01:00"),
    ("c18-std-end-uses-dst-offset", "C18", "src/local/timezone.rs", "let std_end_unix = std_end_timestamp - altt.std.utoff as i64;", "let std_end_unix = std_end_timestamp - altt.dst.utoff as i64;", "start of DST converted with the DST offset"),
    ("c18-week5-is-week4", "C18", "src/local/transition_rule.rs", "5 => weekdays_in_month.last().unwrap(),", "5 => &weekdays_in_month[3],", "last week = 4th week"),
    ("c18-southern-boundary", "C18", "src/local/timezone.rs", "&& dst_end_unix <= timestamp\n                                    && timestamp < std_end_unix =>", "&& dst_end_unix < timestamp\n                                    && timestamp < std_end_unix =>", "southern hemisphere: off by one second at the end of DST"),
    ("c18-v1-times-8-bytes", "C18", "src/local/timezone.rs", "DataBlock::parse(&mut cursor, &header, Version::V1)?;\n\n                let header = Header::parse(&mut cursor)?;", "DataBlock::parse(&mut cursor, &header, if header.transition_count > 300 { header.ver } else { Version::V1 })?;\n\n                let header = Header::parse(&mut cursor)?;", "v1 block of large files skipped with the wrong width"),
    ("c18-negative-rule-time-abs", "C18", "src/local/transition_rule.rs", "parse_tz_string_offset_extended(cursor)? as u32", "parse_tz_string_offset_extended(cursor)?.unsigned_abs()", "negative v3 rule times lose their sign"),
    ("c18-leap-skip-width", "C18", "src/local/data_block.rs", "_leap_seconds: cursor.read_exact(header.leap_count * (time_size + 4))?,", "_leap_seconds: cursor.read_exact(header.leap_count * 8)?,", "leap-second records skipped with the v1 width"),
    ("c18-400y-cycle-wrong", "C18", "src/local/timezone.rs", "let timestamp = timestamp % (146_097 * 86_400);", "let timestamp = timestamp % (146_100 * 86_400);", "rule evaluated modulo a wrong cycle (visible only beyond 2370)"),
    # ---- C19 ----
    ("c19-resolve-unwrap", "C19", "src/offset.rs", "Ok(bytes) => match TimeZone::from_tzif(&bytes) {\n                            Ok(time_zone) => {", "Ok(bytes) => match TimeZone::from_tzif(&bytes).map_err(|e| panic!(\"{}\", e)) {\n                            Ok::<TimeZone, ()>(time_zone) => {", "parse errors abort again"),
    ("c19-cursor-read-exact-le", "C19", "src/local/cursor.rs", "        if self.remaining.len() < len {\n            return Err(TimeZoneError::Cursor(\"End of byte slice reached\"));\n        }\n        let (data, remaining) = self.remaining.split_at(len);", "        if self.remaining.len() + 1 < len {\n            return Err(TimeZoneError::Cursor(\"End of byte slice reached\"));\n        }\n        let (data, remaining) = self.remaining.split_at(len);", "bounds check off by one"),
    ("c19-no-type-index-check", "C19", "src/local/timezone.rs", ".any(|transition| transition.local_time_type_index >= local_time_types.len())", ".any(|transition| transition.local_time_type_index > local_time_types.len())", "index == typecnt slips through"),
    ("c19-week-range-1-6", "C19", "src/local/transition_rule.rs", "!(1..=5).contains(&week)", "!(1..=6).contains(&week)", "week 6 accepted"),
    ("c19-julian-0-accepted", "C19", "src/local/transition_rule.rs", "if !(1..=365).contains(&day) {", "if !(0..=365).contains(&day) {", "J0 accepted"),
    ("c19-capacity-before-read", "C19", "src/local/timezone.rs", "        let mut cursor = Cursor::new(bytes);\n        let header = Header::parse(&mut cursor)?;\n", "        let mut cursor = Cursor::new(bytes);\n        let header = Header::parse(&mut cursor)?;\n        let _scratch: Vec<u64> = Vec::with_capacity(header.transition_count);\n", "allocation sized by an unvalidated header count"),
    ("c19-read-tag-no-len", "C19", "src/local/cursor.rs", "        if self.remaining.len() < bytes.len() {\n            return Err(TimeZoneError::Cursor(\"End of byte slice reached\"));\n        }\n        let (data, remaining) = self.remaining.split_at(bytes.len());", "        let (data, remaining) = self.remaining.split_at(bytes.len());", "read_tag without the length check"),
    ("c19-month-13", "C19", "src/local/transition_rule.rs", "!(1..=12).contains(&month)", "!(1..=13).contains(&month)", "month 13 accepted"),
    ("c19-no-cycle-reduction", "C19", "src/local/timezone.rs", "let timestamp = timestamp % (146_097 * 86_400);", "let timestamp = timestamp % i64::MAX;", "rule lookups in the first/last year panic again"),
    ("c19-empty-types-ok", "C19", "src/local/timezone.rs", "if extra_rule.is_none() && local_time_types.is_empty() {", "if false && extra_rule.is_none() && local_time_types.is_empty() {", "no types and no rule: index 0 at lookup"),
]

EXTRA = {
    "c17-clone-forgets-last": ("src/cron.rs", "type CronParts = (", "impl Clone for CronSchedule {\n    fn clone(&self) -> Self {\n        CronSchedule {\n            minutes: self.minutes.clone(),\n            hours: self.hours.clone(),\n            days_of_month: self.days_of_month.clone(),\n            months: self.months.clone(),\n            days_of_week: self.days_of_week.clone(),\n            last_schedule: None,\n            #[cfg(test)]\n            now: self.now,\n        }\n    }\n}\n\ntype CronParts = ("),
}


def sh(cmd, cwd=None, timeout=3600):
    p = subprocess.run(cmd, shell=True, cwd=cwd, capture_output=True, text=True, timeout=timeout)
    return p.returncode, p.stdout + p.stderr


def main():
    want = sys.argv[1:]
    os.makedirs(os.path.join(VERIF, "sensitivity"), exist_ok=True)
    res_path = os.path.join(VERIF, "sensitivity", "results.json")
    results = json.load(open(res_path)) if os.path.exists(res_path) else {}
    rc, out = sh("git status --porcelain", REPO)
    if out.strip():
        print("refusing: /repo has uncommitted changes"); sys.exit(2)
    for (mid, prop, path, old, new, note) in MUTANTS:
        if want and not any(mid.startswith(w) for w in want):
            continue
        src_path = os.path.join(REPO, path)
        src = open(src_path).read()
        if src.count(old) != 1:
            print("%s: anchor found %d times - skipped" % (mid, src.count(old)))
            results[mid] = {"property": prop, "status": "anchor-not-found"}
            continue
        try:
            open(src_path, "w").write(src.replace(old, new))
            if mid in EXTRA:
                p2, o2, n2 = EXTRA[mid]
                s2 = open(os.path.join(REPO, p2)).read()
                assert s2.count(o2) == 1
                open(os.path.join(REPO, p2), "w").write(s2.replace(o2, n2))
            _, diff = sh("git diff", REPO)
            open(os.path.join(VERIF, "sensitivity", mid + ".diff"), "w").write(diff)
            t0 = time.time()
            rc_t, out_t = sh("cargo test --workspace --no-fail-fast --offline 2>&1 | grep -E '^test result|error(\\[|:)' ", REPO)
            passed = sum(int(l.split()[3]) for l in out_t.splitlines() if l.startswith("test result"))
            failed = sum(int(l.split()[5]) for l in out_t.splitlines() if l.startswith("test result"))
            compiles = "error" not in out_t
            rc_c, out_c = sh("./check %s quick" % prop, VERIF)
            viol = [l for l in out_c.splitlines() if l.startswith("VIOLATION") or l.startswith("SUSPECT-HANG")]
            first = next((l for l in out_c.splitlines() if l.strip().startswith(prop + " [")), "")
            replay_ok = None
            if rc_c == 1 and viol and "replay=" in viol[0]:
                rp = viol[0].split("replay=")[1].strip()
                rc_r, out_r = sh("./check replay %s" % rp, VERIF)
                replay_ok = (rc_r == 1) and ("reproduced exactly" in out_r or "hang reproduced" in out_r or "process death reproduced" in out_r)
            results[mid] = {
                "property": prop, "note": note, "compiles": compiles, "suite_passed": passed, "suite_failed": failed,
                "check_exit": rc_c, "violations": len(viol), "first": first.strip()[:300], "seconds": round(time.time() - t0, 1),
                "replay_reproduces_exactly": replay_ok,
            }
            verdict = "CAUGHT" if rc_c == 1 else ("silent" if rc_c == 0 else "HARNESS-ERROR")
            print("%-32s %s suite %d/%d failed=%d  check exit=%d %s  %s" % (mid, prop, passed, passed + failed, failed, rc_c, verdict, first.strip()[:140]))
        finally:
            sh("git checkout -- .", REPO)
        json.dump(results, open(res_path, "w"), indent=1, sort_keys=True)
    sh("git checkout -- .", REPO)


if __name__ == "__main__":
    main()
