#!/usr/bin/env bash
# Applies a seeded change (patch.diff) to /repo, runs the repository's own suite and the four
# quick checks (optionally a thorough one), and restores /repo.   usage: seedcheck.sh <patch.diff> [ID-for-thorough]
set -u
PATCH="$1"; THOROUGH="${2:-}"
cd /repo || exit 2
[ -z "$(git status --porcelain)" ] || { echo "refusing: /repo not clean"; exit 2; }
git apply "$PATCH" || { echo "patch does not apply"; exit 2; }
trap 'cd /repo && git checkout -- . && git clean -fdq src tests' EXIT
echo "== suite"; cargo test --workspace --no-fail-fast --offline 2>&1 | grep -E '^test result|^error' | awk '/test result/{s+=$4; f+=$6} /^error/{print} END {print "suite passed=" s " failed=" f}'
cd /verif
for id in C16 C17 C18 C19; do
  out=$(./check $id quick 2>&1); rc=$?
  echo "== $id quick exit=$rc $(echo "$out" | grep -c '^VIOLATION') violation lines"
  echo "$out" | grep -E "^  $id \[" | head -3 | cut -c1-300
  if [ $rc -eq 1 ]; then
    rp=$(echo "$out" | sed -n 's/^VIOLATION property=[^ ]* replay=//p' | head -1)
    [ -n "$rp" ] && ./check replay "$rp" 2>&1 | grep -E "reproduced|differs|without violation|stays alive|agree" | head -2
  fi
done
if [ -n "$THOROUGH" ]; then
  out=$(./check $THOROUGH thorough 2>&1); rc=$?
  echo "== $THOROUGH thorough exit=$rc"; echo "$out" | grep -E "^  $THOROUGH \[" | head -3 | cut -c1-300
fi
