#!/usr/bin/env bash
# Background soak: thorough check of one property under a range of VERIF_SEED values.
# usage: soak.sh <ID> <first seed> <last seed>     (run from the /verif root or a snapshot of it)
set -u
cd "$(dirname "${BASH_SOURCE[0]}")/.." || exit 2
ID="$1"; A="$2"; B="$3"
for s in $(seq "$A" "$B"); do
  out=$(VERIF_SEED=$s ./check "$ID" thorough 2>&1); rc=$?
  echo "seed=$s exit=$rc $(echo "$out" | tail -1)"
  if [ $rc -ne 0 ]; then echo "$out" | tail -40; exit $rc; fi
done
echo "soak $ID seeds $A..$B clean"
