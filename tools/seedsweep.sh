#!/usr/bin/env bash
# Alarm-freedom over seeds: the quick check of every property under VERIF_SEED = A..B.
set -u
cd "$(dirname "${BASH_SOURCE[0]}")/.." || exit 2
A="$1"; B="$2"; bad=0
for s in $(seq "$A" "$B"); do
  for id in C16 C17 C18 C19; do
    out=$(VERIF_SEED=$s ./check $id quick 2>&1); rc=$?
    if [ $rc -ne 0 ]; then echo "seed=$s $id exit=$rc"; echo "$out" | tail -15; bad=1; fi
  done
  [ $((s % 10)) -eq 0 ] && echo "seeds up to $s done"
done
[ $bad -eq 0 ] && echo "sweep $A..$B: every quick check exited 0"
exit $bad
