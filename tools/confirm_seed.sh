#!/usr/bin/env bash
# Confirms a seeded change in a scratch worktree: demo passes on pristine code, the change compiles,
# the existing suite passes with it, the demo fails with it.  usage: confirm_seed.sh <seed-dir> <worktree>
set -u
SEED="$1"; WT="$2"
cd "$WT" || exit 2
git checkout -q -- . ; git clean -fdq -e deliver -e target
cp "$SEED/demo_test.rs" tests/demo_test.rs
cargo test --offline --features verif --test demo_test >/tmp/confirm.$$.log 2>&1; pristine_rc=$?
git apply "$SEED/patch.diff" || { echo "$SEED: patch does not apply"; exit 2; }
cargo build --offline >/dev/null 2>&1; build_rc=$?
mv tests/demo_test.rs /tmp/demo.$$.rs
suite=$(cargo test --workspace --no-fail-fast --offline 2>&1 | grep -E '^test result' | awk '{s+=$4; f+=$6} END {print s "/" f}')
mv /tmp/demo.$$.rs tests/demo_test.rs
cargo test --offline --features verif --test demo_test >/tmp/confirm.$$.log 2>&1; patched_rc=$?
git checkout -q -- . ; git clean -fdq -e deliver -e target
rm -f /tmp/confirm.$$.log
echo "$(basename $SEED): demo_on_pristine_exit=$pristine_rc build_exit=$build_rc suite_passed/failed=$suite demo_with_change_exit=$patched_rc"
